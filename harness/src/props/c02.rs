//! C02 — query answers do not depend on the plan.  Protocol: lean/Kolibrie/Driver/C02.lean
use super::{Prop, Stats, Tier};
use crate::engine_common::*;
use crate::rng::Rng;
use kolibrie::parser::parse_combined_query;
use kolibrie::streamertail_optimizer::{
    build_logical_plan_from_group, DatabaseStats, ExecutionEngine, PhysicalOperator, Streamertail,
};
use shared::dataset_index::{GraphId, GraphTerm, QuadPattern};
use shared::query::SparqlOperation;
use std::collections::HashMap;
use std::sync::Arc;

pub struct C02;

// ---- generators (shared with C01) ---------------------------------------------------------------

pub fn gen_term(rng: &mut Rng, u: &Universe, nvars: u32, pos: u8) -> Term {
    // pos 0 subject, 1 predicate, 2 object
    let pv = if pos == 1 { 25 } else { 65 };
    if rng.below(100) < pv {
        Term::Var(rng.below(nvars as usize) as u32)
    } else {
        Term::Const(match pos {
            0 => rng.pick(&u.iris).clone(),
            1 => rng.pick(&u.preds).clone(),
            _ => {
                if rng.chance(1, 2) {
                    rng.pick(&u.iris).clone()
                } else {
                    rng.pick(&u.lits).clone()
                }
            }
        })
    }
}
pub fn gen_triple(rng: &mut Rng, u: &Universe, nvars: u32) -> (Term, Term, Term) {
    if !u.seeds.is_empty() && rng.below(10) < 7 {
        // start from a triple that exists and abstract some positions
        let (s, p, o) = rng.pick(&u.seeds).clone();
        // the same value is mostly abstracted to the same variable, so that the patterns of one query are jointly satisfiable
        let mut abs = |c: String, pv: usize, rng: &mut Rng| {
            if rng.below(100) < pv {
                if rng.below(10) < 8 {
                    Term::Var((crate::proto::fnv(&c) % nvars as u64) as u32)
                } else {
                    Term::Var(rng.below(nvars as usize) as u32)
                }
            } else {
                Term::Const(c)
            }
        };
        return (abs(s, 70, rng), abs(p, 25, rng), abs(o, 65, rng));
    }
    (gen_term(rng, u, nvars, 0), gen_term(rng, u, nvars, 1), gen_term(rng, u, nvars, 2))
}
pub fn gen_cond(rng: &mut Rng, u: &Universe, vars: &[u32], depth: u32) -> Cond {
    let k = rng.below(10);
    if depth == 0 || k < 6 || vars.is_empty() {
        let v = if vars.is_empty() { 0 } else { *rng.pick(vars) };
        let op = rng.pick(&["eq", "ne", "lt", "le", "gt", "ge"]).to_string();
        let rhs = if rng.chance(1, 3) && vars.len() > 1 {
            Opnd::Var(*rng.pick(vars))
        } else if op == "eq" || op == "ne" {
            if rng.chance(1, 2) { Opnd::Const(rng.pick(&u.iris).clone()) } else { Opnd::Const(rng.pick(&u.lits).clone()) }
        } else {
            Opnd::Const(rng.pick(&["0", "1", "4", "-2", "7"]).to_string())
        };
        Cond::Cmp(v, op, rhs)
    } else if k < 7 {
        Cond::Not(Box::new(gen_cond(rng, u, vars, depth - 1)))
    } else if k < 9 {
        Cond::And(Box::new(gen_cond(rng, u, vars, depth - 1)), Box::new(gen_cond(rng, u, vars, depth - 1)))
    } else {
        Cond::Or(Box::new(gen_cond(rng, u, vars, depth - 1)), Box::new(gen_cond(rng, u, vars, depth - 1)))
    }
}
pub fn gen_spec(rng: &mut Rng, vars: &[u32], fresh: u32, allow_limit: bool, allow_count: bool) -> Spec {
    let mut s = Spec::star();
    if vars.is_empty() {
        return s;
    }
    match rng.below(10) {
        0..=3 => {}
        4..=6 => {
            let n = rng.range(1, vars.len().min(3));
            let mut vs = vars.to_vec();
            rng.shuffle(&mut vs);
            s.proj = Some(vs[..n].iter().map(|v| Item::Var(*v)).collect());
        }
        _ => {
            // aggregate, optionally grouped
            let kind = if allow_count { rng.pick(&["count", "sum", "min", "max", "avg"]).to_string() } else { rng.pick(&["sum", "min", "max", "avg"]).to_string() };
            let input = *rng.pick(vars);
            let mut items = Vec::new();
            if rng.chance(2, 3) {
                let g = *rng.pick(vars);
                s.group_vars = vec![g];
                items.push(Item::Var(g));
            }
            items.push(Item::Agg(kind, input, fresh));
            s.proj = Some(items);
        }
    }
    s.distinct = rng.chance(1, 4);
    let outs: Vec<u32> = match &s.proj {
        None => vars.to_vec(),
        Some(items) => items
            .iter()
            .filter_map(|i| match i {
                Item::Var(v) => Some(*v),
                Item::Agg(k, _, o) => if k == "avg" { None } else { Some(*o) },
            })
            .collect(),
    };
    if rng.chance(1, 3) && !outs.is_empty() {
        s.order = vec![(*rng.pick(&outs), rng.chance(1, 2))];
    }
    if allow_limit && rng.chance(1, 5) {
        s.limit = Some(rng.range(0, 3));
    } else if !allow_limit && rng.chance(1, 6) {
        // inside a sub-select only limits whose effect does not depend on the (unspecified) row order
        s.limit = Some(if rng.chance(1, 2) { 0 } else { 100_000 });
    }
    s
}
/// all variables a pattern can bind
pub fn pat_vars(p: &Pat, out: &mut Vec<u32>) {
    let mut push = |v: u32, out: &mut Vec<u32>| {
        if !out.contains(&v) {
            out.push(v)
        }
    };
    match p {
        Pat::Unit | Pat::Filter(_) => {}
        Pat::Bgp(tps) => {
            for (s, pp, o) in tps {
                for t in [s, pp, o] {
                    if let Term::Var(v) = t {
                        push(*v, out)
                    }
                }
            }
        }
        Pat::Group(es) | Pat::Union(es) => {
            for e in es {
                pat_vars(e, out)
            }
        }
        Pat::Graph(g, p) => {
            if let GTerm::Var(v) = g {
                push(*v, out)
            }
            pat_vars(p, out)
        }
        Pat::Bind(_, o) => push(*o, out),
        Pat::Values(vs, _) => {
            for v in vs {
                push(*v, out)
            }
        }
        Pat::Sub(s, p) => match &s.proj {
            None => pat_vars(p, out),
            Some(items) => {
                for i in items {
                    match i {
                        Item::Var(v) => push(*v, out),
                        Item::Agg(_, _, o) => push(*o, out),
                    }
                }
            }
        },
    }
}
/// `scoped`: keep FILTER/BIND variables certainly bound (mostly well-scoped stream) or allow maybe-bound ones
fn other<'a>(rng: &mut Rng, pool: &'a [String], cur: &str) -> String {
    let cands: Vec<&String> = pool.iter().filter(|x| x.as_str() != cur).collect();
    if cands.is_empty() { cur.to_string() } else { (*rng.pick(&cands)).clone() }
}
fn near_cond(rng: &mut Rng, u: &Universe, c: &Cond) -> Cond {
    match c {
        Cond::Cmp(v, op, rhs) => {
            if rng.chance(1, 2) {
                let nop = other(rng, &["eq", "ne", "lt", "le", "gt", "ge"].map(|x| x.to_string()), op);
                Cond::Cmp(*v, nop, rhs.clone())
            } else {
                match rhs {
                    Opnd::Const(k) => Cond::Cmp(*v, op.clone(), Opnd::Const(if u.iris.contains(k) { other(rng, &u.iris, k) } else { other(rng, &["0", "1", "4", "-2", "7"].map(|x| x.to_string()), k) })),
                    Opnd::Var(_) => Cond::Not(Box::new(c.clone())),
                }
            }
        }
        Cond::Not(a) => Cond::Not(Box::new(near_cond(rng, u, a))),
        Cond::And(a, b) => {
            if rng.chance(1, 3) { Cond::Or(a.clone(), b.clone()) } else if rng.chance(1, 2) { Cond::And(Box::new(near_cond(rng, u, a)), b.clone()) } else { Cond::And(a.clone(), Box::new(near_cond(rng, u, b))) }
        }
        Cond::Or(a, b) => {
            if rng.chance(1, 3) { Cond::And(a.clone(), b.clone()) } else if rng.chance(1, 2) { Cond::Or(Box::new(near_cond(rng, u, a)), b.clone()) } else { Cond::Or(a.clone(), Box::new(near_cond(rng, u, b))) }
        }
    }
}
/// a copy of `p` with exactly one small detail changed (a constant, a graph name, a VALUES cell, a solution modifier, a
/// comparison); the set of variables the pattern can bind is unchanged except when a projection item is dropped
pub fn near_copy(rng: &mut Rng, u: &Universe, p: &Pat) -> Pat {
    match p {
        Pat::Unit => Pat::Unit,
        Pat::Bgp(tps) => {
            let mut t = tps.clone();
            if t.is_empty() {
                return Pat::Bgp(t);
            }
            let k = rng.below(t.len());
            let (s, pp, o) = t[k].clone();
            let consts: Vec<u8> = [(&s, 0u8), (&pp, 1u8), (&o, 2u8)].iter().filter(|(x, _)| matches!(x, Term::Const(_))).map(|(_, i)| *i).collect();
            if consts.is_empty() {
                // swap subject and object variables
                t[k] = (o, pp, s);
            } else {
                match *rng.pick(&consts) {
                    0 => if let Term::Const(c) = &s { t[k].0 = Term::Const(other(rng, &u.iris, c)) },
                    1 => if let Term::Const(c) = &pp { t[k].1 = Term::Const(other(rng, &u.preds, c)) },
                    _ => if let Term::Const(c) = &o { t[k].2 = Term::Const(if u.lits.contains(c) { other(rng, &u.lits, c) } else { other(rng, &u.iris, c) }) },
                }
            }
            Pat::Bgp(t)
        }
        Pat::Group(es) | Pat::Union(es) => {
            let mut es2 = es.clone();
            // prefer a site that is not a BIND (whose target must stay fresh)
            let sites: Vec<usize> = (0..es2.len()).filter(|i| !matches!(es2[*i], Pat::Bind(..) | Pat::Unit)).collect();
            if !sites.is_empty() {
                let k = *rng.pick(&sites);
                es2[k] = near_copy(rng, u, &es2[k]);
            }
            if matches!(p, Pat::Group(_)) { Pat::Group(es2) } else { Pat::Union(es2) }
        }
        Pat::Graph(g, inner) => {
            if rng.chance(1, 2) {
                let g2 = match g {
                    GTerm::Named(n) => GTerm::Named(other(rng, &u.graphs, n)),
                    other_g => other_g.clone(),
                };
                Pat::Graph(g2, inner.clone())
            } else {
                Pat::Graph(g.clone(), Box::new(near_copy(rng, u, inner)))
            }
        }
        Pat::Filter(c) => Pat::Filter(near_cond(rng, u, c)),
        Pat::Bind(a, v) => Pat::Bind(a.clone(), *v),
        Pat::Values(vars, rows) => {
            let mut r = rows.clone();
            if !r.is_empty() && !vars.is_empty() {
                let i = rng.below(r.len());
                let j = rng.below(vars.len());
                r[i][j] = match &r[i][j] {
                    None => Some(rng.pick(&u.iris).clone()),
                    Some(c) => if rng.chance(1, 4) { None } else if u.lits.contains(c) { Some(other(rng, &u.lits, c)) } else { Some(other(rng, &u.iris, c)) },
                };
            }
            Pat::Values(vars.clone(), r)
        }
        Pat::Sub(spec, inner) => {
            if rng.chance(1, 4) {
                return Pat::Sub(spec.clone(), Box::new(near_copy(rng, u, inner)));
            }
            let mut sp = spec.clone();
            match rng.below(4) {
                0 => sp.limit = match sp.limit { None => Some(0), Some(0) => if rng.chance(1, 2) { None } else { Some(100_000) }, Some(_) => Some(0) },
                1 => sp.distinct = !sp.distinct,
                2 => match &mut sp.proj {
                    Some(items) if items.len() > 1 && sp.group_vars.is_empty() && sp.order.is_empty() => { items.pop(); }
                    Some(items) => {
                        for it in items.iter_mut() {
                            if let Item::Agg(k, _, _) = it {
                                *k = other(rng, &["sum", "min", "max"].map(|x| x.to_string()), k);
                            }
                        }
                    }
                    None => sp.distinct = !sp.distinct,
                },
                _ => {
                    if sp.order.is_empty() { sp.limit = match sp.limit { None => Some(0), _ => None } } else { sp.order[0].1 = !sp.order[0].1; sp.limit = match sp.limit { None => Some(0), _ => None } }
                }
            }
            Pat::Sub(sp, Box::new((**inner).clone()))
        }
    }
}
pub fn gen_group(rng: &mut Rng, u: &Universe, nvars: u32, depth: u32, scoped: bool, fresh: &mut u32) -> Pat {
    let n = if depth >= 2 { rng.range(1, 3) } else { rng.range(1, 2) };
    let mut elems: Vec<Pat> = Vec::new();
    for _ in 0..n {
        let k = rng.below(100);
        let e = if depth == 0 || k < 50 {
            let m = rng.range(1, 2);
            Pat::Bgp((0..m).map(|_| gen_triple(rng, u, nvars)).collect())
        } else if k < 60 {
            let b = rng.range(2, 3);
            let mut branches: Vec<Pat> = (0..b).map(|_| gen_group(rng, u, nvars, depth - 1, scoped, fresh)).collect();
            if rng.chance(1, 3) {
                // sibling branches that differ in one detail only (anything keyed on a lossy summary of a sub-plan confuses them)
                let c = near_copy(rng, u, &branches[0]);
                let last = branches.len() - 1;
                branches[last] = c;
            }
            Pat::Union(branches)
        } else if k < 72 {
            let g = match rng.below(3) {
                0 => GTerm::Var(rng.below(nvars as usize) as u32),
                _ => GTerm::Named(if rng.chance(1, 8) { "urn:gmissing".to_string() } else { rng.pick(&u.graphs).clone() }),
            };
            let mut inner = gen_group(rng, u, nvars, depth - 1, scoped, fresh);
            if rng.chance(1, 4) {
                // GRAPH directly around a sub-select: the sub-select's fresh variable scope meets the graph scope
                let mut vs = Vec::new();
                pat_vars(&inner, &mut vs);
                *fresh += 1;
                let spec = gen_spec(rng, &vs, *fresh, false, false);
                inner = Pat::Group(vec![Pat::Sub(spec, Box::new(inner))]);
            }
            Pat::Graph(g, Box::new(inner))
        } else if k < 80 {
            gen_group(rng, u, nvars, depth - 1, scoped, fresh)
        } else if k < 90 {
            let nv = rng.range(1, 2);
            let mut vars: Vec<u32> = Vec::new();
            while vars.len() < nv {
                let v = rng.below(nvars as usize) as u32;
                if !vars.contains(&v) {
                    vars.push(v);
                }
            }
            let nr = rng.range(1, 3);
            let rows = (0..nr)
                .map(|_| {
                    (0..nv)
                        .map(|_| {
                            if rng.chance(1, 5) {
                                None
                            } else if rng.chance(1, 2) {
                                Some(rng.pick(&u.iris).clone())
                            } else {
                                Some(rng.pick(&u.lits).clone())
                            }
                        })
                        .collect()
                })
                .collect();
            Pat::Values(vars, rows)
        } else {
            let inner = gen_group(rng, u, nvars, depth - 1, scoped, fresh);
            let mut vs = Vec::new();
            pat_vars(&inner, &mut vs);
            *fresh += 1;
            let spec = gen_spec(rng, &vs, *fresh, false, false);
            Pat::Sub(spec, Box::new(inner))
        };
        elems.push(e);
    }
    if depth >= 1 && rng.chance(1, 14) {
        // two sub-selects over the same (satisfiable) inner pattern whose modifiers differ in one detail, side by side in
        // a UNION or joined: anything that identifies a sub-plan by a lossy summary of its modifiers confuses them
        let inner = Pat::Group(vec![Pat::Bgp(vec![gen_triple(rng, u, nvars)])]);
        let mut vs = Vec::new();
        pat_vars(&inner, &mut vs);
        *fresh += 1;
        let spec = gen_spec(rng, &vs, *fresh, false, false);
        let a = Pat::Sub(spec, Box::new(inner));
        let b = near_copy(rng, u, &a);
        let (a, b) = if rng.chance(1, 2) { (a, b) } else { (b, a) };
        if rng.chance(2, 3) {
            elems.push(Pat::Union(vec![Pat::Group(vec![a]), Pat::Group(vec![b])]));
        } else {
            elems.push(a);
            elems.push(b);
        }
    }
    if depth >= 1 && rng.chance(1, 10) {
        // a joined near-copy of one of the blocks
        let k = rng.below(elems.len());
        if !matches!(elems[k], Pat::Bgp(_)) {
            let c = near_copy(rng, u, &elems[k]);
            elems.push(c);
        }
    }
    // BIND / FILTER over the group's variables
    let mut vs = Vec::new();
    for e in &elems {
        pat_vars(e, &mut vs);
    }
    let certain: Vec<u32> = if scoped {
        // variables of the group's own direct triple patterns are certainly bound
        let mut c = Vec::new();
        for e in &elems {
            if let Pat::Bgp(_) = e {
                pat_vars(e, &mut c);
            }
        }
        c
    } else {
        vs.clone()
    };
    if rng.chance(1, 4) && !certain.is_empty() {
        *fresh += 1;
        let mut args = vec![Opnd::Var(*rng.pick(&certain))];
        if rng.chance(1, 2) {
            args.push(Opnd::Const(rng.pick(&["a", "-", "1"]).to_string()));
        }
        let pos = rng.below(elems.len() + 1);
        // a BIND sees only what precedes it: keep it at the end when scoping is required
        let pos = if scoped { elems.len() } else { pos };
        elems.insert(pos, Pat::Bind(args, *fresh));
    }
    if rng.chance(2, 5) && !certain.is_empty() {
        let c = gen_cond(rng, u, &certain, 2);
        let pos = rng.below(elems.len() + 1);
        elems.insert(pos, Pat::Filter(c));
    }
    Pat::Group(elems)
}

fn gen_plan(rng: &mut Rng, u: &Universe, nvars: u32, depth: u32, fresh: &mut u32) -> Plan {
    let k = rng.below(100);
    if depth == 0 || k < 30 {
        match rng.below(10) {
            0 => Plan::Unit,
            1 => Plan::Empty,
            2 => Plan::Star((0..rng.range(1, 3)).map(|_| gen_triple(rng, u, nvars)).collect()),
            3 => {
                let vars = vec![rng.below(nvars as usize) as u32];
                let rows = (0..rng.range(1, 3)).map(|_| vec![if rng.chance(1, 4) { None } else { Some(rng.pick(&u.iris).clone()) }]).collect();
                Plan::Values(vars, rows)
            }
            _ => {
                let (s, p, o) = gen_triple(rng, u, nvars);
                let g = match rng.below(6) {
                    0 => GTerm::Named(rng.pick(&u.graphs).clone()),
                    1 => GTerm::Var(rng.below(nvars as usize) as u32),
                    _ => GTerm::Dflt,
                };
                Plan::Scan(s, p, o, g)
            }
        }
    } else if k < 62 {
        let l = Box::new(gen_plan(rng, u, nvars, depth - 1, fresh));
        let r = Box::new(gen_plan(rng, u, nvars, depth - 1, fresh));
        match rng.below(3) {
            0 => Plan::Bind(l, r),
            1 => Plan::Hash(l, r),
            _ => Plan::Nl(l, r),
        }
    } else if k < 72 {
        Plan::Union((0..rng.range(0, 3)).map(|_| gen_plan(rng, u, nvars, depth - 1, fresh)).collect())
    } else if k < 80 {
        let g = match rng.below(4) {
            0 => GTerm::Dflt,
            1 => GTerm::Var(rng.below(nvars as usize) as u32),
            _ => GTerm::Named(rng.pick(&u.graphs).clone()),
        };
        Plan::Graph(g, Box::new(gen_plan(rng, u, nvars, depth - 1, fresh)))
    } else if k < 88 {
        let vars: Vec<u32> = (0..nvars).collect();
        Plan::Filter(gen_cond(rng, u, &vars, 2), Box::new(gen_plan(rng, u, nvars, depth - 1, fresh)))
    } else if k < 92 {
        let vs: Vec<u32> = (0..nvars).filter(|_| rng.chance(1, 2)).collect();
        Plan::Project(vs, Box::new(gen_plan(rng, u, nvars, depth - 1, fresh)))
    } else if k < 96 {
        let vars: Vec<u32> = (0..nvars).collect();
        *fresh += 1;
        let spec = gen_spec(rng, &vars, *fresh, false, true);
        Plan::Sub(spec, Box::new(gen_plan(rng, u, nvars, depth - 1, fresh)))
    } else {
        *fresh += 1;
        let out = if rng.chance(1, 4) { rng.below(nvars as usize) as u32 } else { *fresh };
        Plan::Ext(vec![Opnd::Var(rng.below(nvars as usize) as u32), Opnd::Const("z".into())], out, Box::new(gen_plan(rng, u, nvars, depth - 1, fresh)))
    }
}

pub fn gen_view(rng: &mut Rng, u: &Universe) -> View {
    match rng.below(4) {
        0 | 1 => View { dflt: vec![None], named: u.graphs.clone() },
        2 => {
            let mut d: Vec<Option<String>> = vec![];
            if rng.chance(2, 3) {
                d.push(None);
            }
            for g in &u.graphs {
                if rng.chance(1, 2) {
                    d.push(Some(g.clone()));
                }
            }
            View { dflt: d, named: u.graphs.iter().filter(|_| rng.chance(2, 3)).cloned().collect() }
        }
        _ => View { dflt: vec![], named: u.graphs.clone() },
    }
}

// ---- implementation side ---------------------------------------------------------------------------

fn permute_bgps(p: &Pat, rng: &mut Rng) -> Pat {
    match p {
        Pat::Bgp(tps) => {
            let mut t = tps.clone();
            rng.shuffle(&mut t);
            Pat::Bgp(t)
        }
        Pat::Group(es) => Pat::Group(es.iter().map(|e| permute_bgps(e, rng)).collect()),
        Pat::Union(es) => Pat::Union(es.iter().map(|e| permute_bgps(e, rng)).collect()),
        Pat::Graph(g, e) => Pat::Graph(g.clone(), Box::new(permute_bgps(e, rng))),
        Pat::Sub(s, e) => Pat::Sub(s.clone(), Box::new(permute_bgps(e, rng))),
        other => other.clone(),
    }
}

/// rewrite every join node (and expand star joins) according to the variant
fn rewrite(op: PhysicalOperator, variant: &str, rng: &mut Rng) -> PhysicalOperator {
    use PhysicalOperator as P;
    let mut mk = |l: P, r: P, orig: u8, rng: &mut Rng| -> P {
        let which = match variant {
            "allbind" => 0,
            "allhash" => 1,
            "allnl" => 2,
            "rnd" => rng.below(3) as u8,
            _ => orig,
        };
        match which {
            0 => P::bind_join(l, r),
            1 => P::hash_join(l, r),
            _ => P::nested_loop_join(l, r),
        }
    };
    match op {
        P::BindJoin { left, right } => {
            let l = rewrite(*left, variant, rng);
            let r = rewrite(*right, variant, rng);
            mk(l, r, 0, rng)
        }
        P::HashJoin { left, right } => {
            let l = rewrite(*left, variant, rng);
            let r = rewrite(*right, variant, rng);
            mk(l, r, 1, rng)
        }
        P::NestedLoopJoin { left, right } => {
            let l = rewrite(*left, variant, rng);
            let r = rewrite(*right, variant, rng);
            mk(l, r, 2, rng)
        }
        P::StarJoin { join_var, patterns } => {
            if variant == "keep" {
                P::StarJoin { join_var, patterns }
            } else {
                let mut it = patterns.into_iter();
                let first = it.next().map(P::index_scan).unwrap_or_else(P::unit);
                it.fold(first, |acc, p| mk(acc, P::index_scan(p), 0, rng))
            }
        }
        P::Union { branches } => P::union(branches.into_iter().map(|b| rewrite(b, variant, rng)).collect()),
        P::Graph { input, graph } => P::graph(rewrite(*input, variant, rng), graph),
        P::Filter { input, condition } => P::filter(rewrite(*input, variant, rng), condition),
        P::Projection { input, variables } => P::projection(rewrite(*input, variant, rng), variables),
        P::Subquery { inner, spec } => P::subquery(rewrite(*inner, variant, rng), spec),
        P::Bind { input, function_name, arguments, output_variable } => {
            P::bind(rewrite(*input, variant, rng), function_name, arguments, output_variable)
        }
        other => other,
    }
}

fn make_stats(kind: &str, db: &kolibrie::sparql_database::SparqlDatabase, u_seed: u64) -> DatabaseStats {
    match kind {
        "fresh" => DatabaseStats::gather_stats_fast(db),
        "empty" => DatabaseStats::new(),
        "stale" => {
            // statistics of an unrelated dataset over the same vocabulary
            let mut r = Rng::new(u_seed ^ 0x5157);
            let mut u = universe(&mut r);
            let other = build_db(&gen_db(&mut r, &mut u));
            DatabaseStats::gather_stats_fast(&other)
        }
        _ => {
            // adversarial: wrong by orders of magnitude in both directions, ids that do not exist
            let mut r = Rng::new(u_seed ^ 0xadbe);
            let mut s = DatabaseStats::gather_stats_fast(db);
            let big = |r: &mut Rng| [0u64, 1, 3, 1_000, 1_000_000, 4_000_000_000][r.below(6)];
            s.total_triples = big(&mut r);
            s.distinct_subjects = big(&mut r);
            s.distinct_objects = big(&mut r);
            s.named_graph_count = big(&mut r);
            for id in 0..40u32 {
                if r.chance(1, 2) {
                    s.predicate_cardinalities.insert(id, big(&mut r));
                }
                if r.chance(1, 2) {
                    s.subject_cardinalities.insert(id, big(&mut r));
                }
                if r.chance(1, 2) {
                    s.object_cardinalities.insert(id, big(&mut r));
                }
                if r.chance(1, 2) {
                    s.predicate_distinct_subjects.insert(id, big(&mut r));
                }
                if r.chance(1, 2) {
                    s.predicate_distinct_objects.insert(id, big(&mut r));
                }
                if r.chance(1, 3) {
                    s.graph_cardinalities.insert(GraphId::Named(id), big(&mut r));
                }
            }
            s.graph_cardinalities.insert(GraphId::Default, big(&mut r));
            s
        }
    }
}

pub fn run_pattern(db_ast: &Db, view: &View, pat: &Pat, variant: &str) -> String {
    // variant = joins:stats:perm:pool
    let parts: Vec<&str> = variant.split(':').collect();
    let (joins, stats_kind, perm, pool) = (
        parts.first().copied().unwrap_or("keep"),
        parts.get(1).copied().unwrap_or("fresh"),
        parts.get(2).and_then(|x| x.parse::<u64>().ok()).unwrap_or(0),
        parts.get(3).and_then(|x| x.parse::<usize>().ok()).unwrap_or(0),
    );
    let mut db = build_db(db_ast);
    let dview = build_view(&db, view);
    let pat2 = if perm == 0 { pat.clone() } else { permute_bgps(pat, &mut Rng::new(perm)) };
    let text = format!("SELECT * WHERE {}", sparql_where(&pat2));
    let parsed = match parse_combined_query(&text) {
        Ok((rest, c)) if rest.trim().is_empty() => c,
        Ok((rest, _)) => return format!("parse-trailing:{}", crate::proto::hex(rest.trim())),
        Err(e) => return format!("parse-error:{}", crate::proto::hex(&format!("{:?}", e).chars().take(80).collect::<String>())),
    };
    let query = match parsed.sparql {
        Some(SparqlOperation::Select(q)) => q,
        _ => return "not-a-select".into(),
    };
    let prefixes: HashMap<String, String> = HashMap::new();
    let logical = match build_logical_plan_from_group(&query.pattern, &prefixes, &mut db) {
        Ok(l) => l,
        Err(e) => return format!("lower-error:{}", crate::proto::hex(&e)),
    };
    let stats = Arc::new(make_stats(stats_kind, &db, perm.wrapping_add(text.len() as u64)));
    let mut opt = Streamertail::with_cached_stats_and_dataset(stats, dview.clone());
    let plan = opt.find_best_plan(&logical);
    let plan = rewrite(plan, joins, &mut Rng::new(perm ^ 0x77));
    let run = |db: &mut kolibrie::sparql_database::SparqlDatabase| ExecutionEngine::execute_with_ids_and_dataset(&plan, db, &dview);
    let rows = if pool == 0 {
        run(&mut db)
    } else {
        let tp = rayon::ThreadPoolBuilder::new().num_threads(pool).build().unwrap();
        tp.install(|| run(&mut db))
    };
    show_bag(&db, &rows)
}

impl Prop for C02 {
    fn id(&self) -> &'static str {
        "plan"
    }
    fn cases(&self, tier: Tier) -> usize {
        match tier {
            Tier::Quick => 2500,
            Tier::Thorough => 40000,
        }
    }
    fn gen(&self, rng: &mut Rng, _tier: Tier, i: usize, stats: &mut Stats) -> String {
        let mut u = universe(rng);
        let db = gen_db(rng, &mut u);
        let view = gen_view(rng, &u);
        let nvars = rng.range(3, 6) as u32;
        let mut fresh = 10;
        let mut toks: Vec<String> = vec!["plan".into()];
        if i % 50 == 7 {
            // enough rows for the chunked / parallel paths of the executor (a bind join splits its left input into
            // chunks of >= 64 rows per thread): a chain or star of 2-3 triple patterns over 90-260 quads
            stats.hit("large_intermediate_results");
            let db = gen_big_db(rng, &mut u);
            let p0 = Term::Const(rng.pick(&u.preds).clone());
            let p1 = Term::Const(rng.pick(&u.preds).clone());
            let mut tps = vec![(Term::Var(0), p0.clone(), Term::Var(1))];
            match rng.below(3) {
                0 => tps.push((Term::Var(1), p1, Term::Var(2))),
                1 => tps.push((Term::Var(0), p1, Term::Var(2))),
                _ => {
                    tps.push((Term::Var(1), Term::Var(3), Term::Var(2)));
                }
            }
            let mut elems = vec![Pat::Bgp(tps)];
            if rng.chance(1, 3) {
                elems.push(Pat::Filter(Cond::Cmp(1, "ne".into(), Opnd::Var(0))));
            }
            if rng.chance(1, 3) {
                elems.push(Pat::Bgp(vec![(Term::Var(2), Term::Const(rng.pick(&u.preds).clone()), Term::Var(4))]));
            }
            // keep the answer (and every intermediate result the model has to build) to a few thousand rows
            let view_all = View { dflt: vec![None], named: u.graphs.clone() };
            while elems.len() > 1 {
                let out = run_pattern(&db, &view_all, &Pat::Group(elems.clone()), "keep:fresh:0:0");
                if out.matches(';').count() < 700 {
                    break;
                }
                elems.pop();
            }
            if let Pat::Bgp(tps) = &mut elems[0] {
                let out = run_pattern(&db, &view_all, &Pat::Group(vec![Pat::Bgp(tps.clone())]), "keep:fresh:0:0");
                if out.matches(';').count() >= 700 {
                    // fall back to constant predicates on both patterns
                    tps[1].1 = p0.clone();
                }
            }
            let mut pat = Pat::Group(elems);
            if rng.chance(1, 2) {
                // solution modifiers of a sub-select over many rows: duplicates after projection that are not adjacent in the
                // plan's emission order, ties on the ORDER BY key, groups with many members
                stats.hit("large_under_subselect_modifiers");
                let mut vs = Vec::new();
                pat_vars(&pat, &mut vs);
                let mut spec = Spec::star();
                let keep = rng.range(1, 2.min(vs.len()));
                let mut pv = vs.clone();
                rng.shuffle(&mut pv);
                pv.truncate(keep);
                spec.proj = Some(pv.iter().map(|v| Item::Var(*v)).collect());
                spec.distinct = rng.chance(3, 4);
                if rng.chance(3, 4) {
                    spec.order = vec![(pv[0], rng.chance(1, 2))];
                }
                pat = Pat::Group(vec![Pat::Sub(spec, Box::new(pat))]);
            }
            let joins = *rng.pick(&["keep", "allbind", "allbind", "rnd", "allhash", "allnl"]);
            let st = *rng.pick(&["fresh", "stale", "empty"]);
            let pool = *rng.pick(&[2usize, 3, 7, 16]);
            stats.hit(&format!("large_pool_{}", pool));
            toks.push("q".into());
            toks.push(format!("{}:{}:{}:{}", joins, st, 0, pool));
            t_db(&db, &mut toks);
            t_view(&View { dflt: vec![None], named: u.graphs.clone() }, &mut toks);
            t_pat(&pat, &mut toks);
            return toks.join(" ");
        }
        if i % 3 == 0 {
            stats.hit("explicit_physical_plan");
            let plan = gen_plan(rng, &u, nvars, 3, &mut fresh);
            toks.push("p".into());
            t_db(&db, &mut toks);
            t_view(&view, &mut toks);
            t_plan(&plan, &mut toks);
        } else {
            let scoped = rng.below(10) < 8;
            let pat = gen_group(rng, &u, nvars, 2, scoped, &mut fresh);
            let joins = *rng.pick(&["keep", "keep", "rnd", "allbind", "allhash", "allnl"]);
            let st = *rng.pick(&["fresh", "fresh", "stale", "empty", "adversarial"]);
            let perm = if rng.chance(2, 3) { rng.range(1, 1_000_000) } else { 0 };
            let pool = *rng.pick(&[0usize, 0, 1, 2, 7, 16]);
            stats.hit(&format!("joins_{}", joins));
            stats.hit(&format!("stats_{}", st));
            stats.hit(if perm == 0 { "source_order" } else { "bgp_permuted" });
            stats.hit(&format!("pool_{}", pool));
            stats.hit(if scoped { "scoped_stream" } else { "maybe_bound_stream" });
            toks.push("q".into());
            toks.push(format!("{}:{}:{}:{}", joins, st, perm, pool));
            t_db(&db, &mut toks);
            t_view(&view, &mut toks);
            t_pat(&pat, &mut toks);
        }
        toks.join(" ")
    }
    fn exec(&self, req: &str) -> String {
        let mut t = Toks::new(req);
        if t.next() != Some("plan") {
            return "bad-request".into();
        }
        match t.next() {
            Some("p") => {
                let (db_ast, view, plan) = match (p_db(&mut t), p_view(&mut t), p_plan(&mut t)) {
                    (Some(a), Some(b), Some(c)) if t.done() => (a, b, c),
                    _ => return "bad-request".into(),
                };
                let mut db = build_db(&db_ast);
                let dview = build_view(&db, &view);
                let mut flip = false;
                let phys = to_physical(&db, &plan, &mut flip);
                let rows = ExecutionEngine::execute_with_ids_and_dataset(&phys, &mut db, &dview);
                show_bag(&db, &rows)
            }
            Some("q") => {
                let variant = match t.next() {
                    Some(v) => v.to_string(),
                    None => return "bad-request".into(),
                };
                let (db_ast, view, pat) = match (p_db(&mut t), p_view(&mut t), p_pat(&mut t)) {
                    (Some(a), Some(b), Some(c)) if t.done() => (a, b, c),
                    _ => return "bad-request".into(),
                };
                run_pattern(&db_ast, &view, &pat, &variant)
            }
            _ => "bad-request".into(),
        }
    }
}
