//! C09 — a time window reports exactly the stream items of one aligned interval.
//! Protocol documented in lean/Kolibrie/Driver/C09.lean:
//!   `win <width> <slide> <mode> <tick>/<strategies> <ts>:<item> …`  →  `<trigger>:[i.j.k] …` or `-`
//! mode `cb`: CSPARQLWindow + register_callback (the way the s2r tests drive it);
//! mode `rx`: WindowRunner::{start_receiver, push, drain} (channel consumer, drained after every push);
//! mode `pb`: CSPARQLWindow::add_probabilistic_to_window + callback (second entry point with its own copy of the
//!            scoping / membership / report / fire logic; every item is a registered probabilistic occurrence).
use super::{Prop, Stats, Tier};
use crate::rng::Rng;
use kolibrie::rsp::s2r::{CSPARQLWindow, ContentContainer, ProbabilisticOccurrence, Report, ReportStrategy, Tick, WindowTriple};
use shared::hybrid::SeedRegistry;
use shared::triple::Triple;
use kolibrie::rsp::window_runner::{WindowRunner, WindowSpec};
use std::sync::{Arc, Mutex};

pub struct C09;

fn item(n: u32) -> WindowTriple {
    WindowTriple { s: format!("s{}", n), p: "p".to_string(), o: "o".to_string() }
}

fn show_content(c: &ContentContainer<WindowTriple>) -> String {
    let mut v: Vec<u64> = c.iter().map(|t| t.s[1..].parse::<u64>().unwrap_or(u64::MAX)).collect();
    v.sort();
    format!("[{}]", v.iter().map(|x| x.to_string()).collect::<Vec<_>>().join("."))
}

fn parse_cfg(s: &str) -> Option<(Tick, Vec<ReportStrategy>)> {
    let (t, ss) = s.split_once('/')?;
    let tick = match t {
        "T" => Tick::TimeDriven,
        "U" => Tick::TupleDriven,
        "B" => Tick::BatchDriven,
        _ => return None,
    };
    let mut strats = Vec::new();
    if ss != "-" {
        for x in ss.split('.') {
            strats.push(match x {
                "C" => ReportStrategy::OnWindowClose,
                "N" => ReportStrategy::NonEmptyContent,
                _ => {
                    let k: usize = x.strip_prefix('P')?.parse().ok()?;
                    if k == 0 {
                        return None;
                    }
                    ReportStrategy::Periodic(k)
                }
            });
        }
    }
    Some((tick, strats))
}

fn parse_items(toks: &[&str]) -> Option<Vec<(usize, u32)>> {
    toks.iter()
        .map(|t| {
            let (a, b) = t.split_once(':')?;
            Some((a.parse::<usize>().ok()?, b.parse::<u32>().ok()?))
        })
        .collect()
}

fn run_callback(width: usize, slide: usize, tick: Tick, strats: Vec<ReportStrategy>, items: &[(usize, u32)]) -> Vec<String> {
    let mut report = Report::new();
    for s in strats {
        report.add(s);
    }
    let mut window: CSPARQLWindow<WindowTriple> = CSPARQLWindow::new(width, slide, report, tick, "verif".to_string());
    let received: Arc<Mutex<Vec<String>>> = Arc::new(Mutex::new(Vec::new()));
    let sink = Arc::clone(&received);
    window.register_callback(Box::new(move |content| {
        sink.lock().unwrap().push(show_content(&content));
    }));
    let mut out = Vec::new();
    for (ts, x) in items {
        window.add_to_window(item(*x), *ts);
        for c in received.lock().unwrap().drain(..) {
            out.push(format!("{}:{}", ts, c));
        }
    }
    window.stop();
    out
}

fn run_probabilistic(width: usize, slide: usize, tick: Tick, strats: Vec<ReportStrategy>, items: &[(usize, u32)]) -> Vec<String> {
    let mut report = Report::new();
    for s in strats {
        report.add(s);
    }
    let mut window: CSPARQLWindow<WindowTriple> = CSPARQLWindow::new(width, slide, report, tick, "verif".to_string());
    let received: Arc<Mutex<Vec<String>>> = Arc::new(Mutex::new(Vec::new()));
    let sink = Arc::clone(&received);
    window.register_callback(Box::new(move |content| {
        sink.lock().unwrap().push(show_content(&content));
    }));
    let mut registry = SeedRegistry::new();
    let mut out = Vec::new();
    for (ts, x) in items {
        let event = registry.next_event_key("http://verif/stream", *ts);
        let seed_id = registry
            .register_occurrence(event.clone(), Triple { subject: *x, predicate: 1, object: 2 }, 0.5)
            .expect("seed registration");
        window.add_probabilistic_to_window(ProbabilisticOccurrence { item: item(*x), event, seed_id });
        for c in received.lock().unwrap().drain(..) {
            out.push(format!("{}:{}", ts, c));
        }
    }
    window.stop();
    out
}

fn run_runner(width: usize, slide: usize, tick: Tick, strats: Vec<ReportStrategy>, items: &[(usize, u32)]) -> Vec<String> {
    let mut runner: WindowRunner<WindowTriple> =
        WindowRunner::new(WindowSpec { width, slide, report_strategies: strats, tick }, "verif".to_string());
    runner.start_receiver();
    let mut out = Vec::new();
    for (ts, x) in items {
        runner.push(item(*x), *ts);
        for c in runner.drain() {
            out.push(format!("{}:{}", ts, show_content(&c)));
        }
    }
    runner.stop();
    out
}

// ---- generation -------------------------------------------------------------------------------

fn fmt_req(width: usize, slide: usize, mode: &str, cfg: &str, items: &[(usize, u32)]) -> String {
    let mut s = format!("win {} {} {} {}", width, slide, mode, cfg);
    for (t, x) in items {
        s.push_str(&format!(" {}:{}", t, x));
    }
    s
}

/// all non-decreasing timestamp sequences of length `len` over `0..=maxts`, appended to `out`
fn nondecreasing(len: usize, maxts: usize, from: usize, cur: &mut Vec<usize>, out: &mut Vec<Vec<usize>>) {
    if cur.len() == len {
        out.push(cur.clone());
        return;
    }
    for t in from..=maxts {
        cur.push(t);
        nondecreasing(len, maxts, t, cur, out);
        cur.pop();
    }
}

impl Prop for C09 {
    fn id(&self) -> &'static str {
        "win"
    }
    fn cases(&self, tier: Tier) -> usize {
        match tier {
            Tier::Quick => 3000,
            Tier::Thorough => 40000,
        }
    }

    /// every in-order stream of length ≤ L with timestamps ≤ Tmax, for every width, slide ≤ B
    /// (items are distinct, numbered by position, so a missing / foreign item is visible)
    fn exhaustive(&self, tier: Tier, stats: &mut Stats) -> Vec<String> {
        let (maxlen, maxts, bound) = if tier == Tier::Quick { (5, 9, 4) } else { (7, 12, 6) };
        let mut seqs: Vec<Vec<usize>> = Vec::new();
        for len in 1..=maxlen {
            nondecreasing(len, maxts, 0, &mut Vec::new(), &mut seqs);
        }
        stats.add("exhaustive_streams", seqs.len() as u64);
        let mut out = Vec::new();
        for width in 1..=bound {
            for slide in 1..=bound {
                for (k, s) in seqs.iter().enumerate() {
                    let items: Vec<(usize, u32)> = s.iter().enumerate().map(|(i, t)| (*t, i as u32)).collect();
                    // all three entry points see every stream of the quick universe; in thorough the runner / probabilistic entry see every third
                    out.push(fmt_req(width, slide, "cb", "T/C", &items));
                    if tier == Tier::Quick || k % 3 == 0 {
                        out.push(fmt_req(width, slide, "rx", "T/C", &items));
                    }
                    if tier == Tier::Quick || k % 3 == 1 {
                        out.push(fmt_req(width, slide, "pb", "T/C", &items));
                    }
                }
            }
        }
        out
    }

    fn gen(&self, rng: &mut Rng, tier: Tier, _i: usize, stats: &mut Stats) -> String {
        // shape of (width, slide)
        let shape = rng.below(100);
        let (width, slide) = if shape < 25 {
            stats.hit("shape_width_multiple_of_slide");
            let s = rng.range(1, 8);
            (s * rng.range(1, 6), s)
        } else if shape < 55 {
            stats.hit("shape_width_not_multiple_of_slide");
            let s = rng.range(2, 9);
            let w = s * rng.range(1, 5) + rng.range(1, s - 1);
            (w, s)
        } else if shape < 80 {
            stats.hit("shape_slide_gt_width");
            let w = rng.range(1, 8);
            (w, w + rng.range(1, 12))
        } else if shape < 90 {
            stats.hit("shape_tumbling");
            let w = rng.range(1, 12);
            (w, w)
        } else if shape < 95 {
            stats.hit("shape_large");
            (rng.range(20, 120), rng.range(1, 40))
        } else {
            // dozens to hundreds of windows open at the same time (width / slide around and beyond 64, 100, 128)
            stats.hit("shape_many_overlapping_windows");
            (rng.range(60, 140), rng.range(1, 2))
        };
        let many_open = shape >= 95;
        // stream
        let maxlen = if tier == Tier::Quick { 60 } else { 300 };
        let len = if many_open { width + rng.range(5, 60) } else if rng.chance(1, 4) { rng.range(1, 8) } else { rng.range(1, maxlen) };
        let kind = rng.below(100);
        let nitems = if rng.chance(1, 3) { rng.range(1, 4) } else { len + 1 };
        let mut t: usize = if rng.chance(1, 2) { 0 } else { rng.below(3 * slide.max(width) + 1) };
        if rng.chance(1, 40) {
            t += 1_000_000_007; // far from the origin (still < 2^53)
            stats.hit("stream_far_origin");
        }
        let mut items: Vec<(usize, u32)> = Vec::new();
        let mut in_order = true;
        let kind = if many_open && kind >= 30 { kind % 30 } else { kind };
        let gap_kind = if kind < 30 {
            stats.hit("stream_dense_gaps_le_slide");
            0
        } else if kind < 55 {
            stats.hit("stream_gaps_up_to_width");
            1
        } else if kind < 85 {
            stats.hit("stream_gaps_up_to_5_width");
            2
        } else if kind < 92 {
            stats.hit("stream_bursts_same_timestamp");
            3
        } else {
            stats.hit("stream_out_of_order");
            4
        };
        for i in 0..len {
            let x = if nitems > len { i as u32 } else { rng.below(nitems) as u32 };
            items.push((t, x));
            let step = match gap_kind {
                0 => rng.below(slide + 1),
                1 => rng.below(width + 2),
                2 => {
                    if rng.chance(1, 3) {
                        rng.below(5 * width + 1)
                    } else {
                        rng.below(slide + 2)
                    }
                }
                3 => {
                    if rng.chance(2, 3) {
                        0
                    } else {
                        rng.below(2 * slide + 1)
                    }
                }
                _ => rng.below(slide + width + 1),
            };
            if gap_kind == 4 && rng.chance(1, 4) && t > 0 {
                t -= rng.below(t.min(width + slide) + 1);
                in_order = false;
            } else {
                t += step;
            }
        }
        let _ = in_order;
        // configuration: mostly the claimed one
        let c = rng.below(100);
        let cfg = if c < 80 {
            stats.hit("cfg_T/C");
            "T/C".to_string()
        } else if c < 85 {
            stats.hit("cfg_nonempty_and_close");
            (if rng.chance(1, 2) { "T/N.C" } else { "T/C.N" }).to_string()
        } else if c < 90 {
            stats.hit("cfg_periodic");
            format!("T/C.P{}", rng.range(1, 2 * slide))
        } else if c < 93 {
            stats.hit("cfg_no_strategy");
            "T/-".to_string()
        } else if c < 96 {
            stats.hit("cfg_nonempty_only");
            "T/N".to_string()
        } else {
            stats.hit("cfg_other_tick");
            (if rng.chance(1, 2) { "U/C" } else { "B/C" }).to_string()
        };
        let m = rng.below(6);
        let mode = if m < 2 {
            stats.hit("mode_runner_channel");
            "rx"
        } else if m == 2 {
            stats.hit("mode_probabilistic_entry");
            "pb"
        } else {
            stats.hit("mode_callback");
            "cb"
        };
        stats.add("items_total", items.len() as u64);
        fmt_req(width, slide, mode, &cfg, &items)
    }

    fn exec(&self, req: &str) -> String {
        let toks: Vec<&str> = req.split_whitespace().collect();
        if toks.len() < 5 || toks[0] != "win" {
            return "bad-request".into();
        }
        let (width, slide) = match (toks[1].parse::<usize>(), toks[2].parse::<usize>()) {
            (Ok(a), Ok(b)) if b >= 1 => (a, b),
            _ => return "bad-request".into(),
        };
        let (tick, strats) = match parse_cfg(toks[4]) {
            Some(x) => x,
            None => return "bad-request".into(),
        };
        let items = match parse_items(&toks[5..]) {
            Some(x) => x,
            None => return "bad-request".into(),
        };
        let out = match toks[3] {
            "cb" => run_callback(width, slide, tick, strats, &items),
            "rx" => run_runner(width, slide, tick, strats, &items),
            "pb" => run_probabilistic(width, slide, tick, strats, &items),
            _ => return "bad-request".into(),
        };
        if out.is_empty() {
            "-".into()
        } else {
            out.join(" ")
        }
    }
}
