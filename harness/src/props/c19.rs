//! C19 — inconsistency-tolerant answers are those true in every maximal repair.
//! Protocol documented in lean/Kolibrie/Driver/C19.lean.
use super::{Prop, Stats, Tier};
use crate::rng::Rng;
use datalog::reasoning::Reasoner;
use shared::rule::Rule;
use shared::terms::Term;
use shared::triple::Triple;
use std::collections::{BTreeMap, BTreeSet, HashMap};

pub struct C19;

type Pat = (Term, Term, Term);

// ---- optional hook `Reasoner::verif_compute_repairs` (hooks/C19_compute_repairs.patch) ----------------------
// An inherent method wins over a trait method of the same name, so this compiles with and without the hook.
struct NoHook;
trait HookFallback {
    fn verif_compute_repairs(&self) -> NoHook {
        NoHook
    }
}
impl HookFallback for Reasoner {}
trait HookOut {
    fn get(self) -> Option<Vec<Vec<Triple>>>;
}
impl HookOut for NoHook {
    fn get(self) -> Option<Vec<Vec<Triple>>> {
        None
    }
}
impl HookOut for Vec<Vec<Triple>> {
    fn get(self) -> Option<Vec<Vec<Triple>>> {
        Some(self)
    }
}
fn hook_repairs(r: &Reasoner) -> Option<Vec<Vec<Triple>>> {
    r.verif_compute_repairs().get()
}
fn hook_present() -> bool {
    hook_repairs(&Reasoner::new()).is_some()
}

// ---- parsing ---------------------------------------------------------------------------------------------
fn parse_term(s: &str) -> Option<Term> {
    if let Some(v) = s.strip_prefix('?') {
        Some(Term::Variable(v.to_string()))
    } else {
        s.parse::<u32>().ok().map(Term::Constant)
    }
}
fn parse_pat(s: &str) -> Option<Pat> {
    let v: Vec<&str> = s.split('.').collect();
    if v.len() != 3 {
        return None;
    }
    Some((parse_term(v[0])?, parse_term(v[1])?, parse_term(v[2])?))
}
fn parse_pats(s: &str) -> Option<Vec<Pat>> {
    if s == "-" {
        return Some(vec![]);
    }
    s.split(',').map(parse_pat).collect()
}
fn parse_facts(s: &str) -> Option<Vec<Triple>> {
    if s == "-" {
        return Some(vec![]);
    }
    s.split(';')
        .map(|f| {
            let v: Vec<u32> = f.split('.').map(|x| x.parse::<u32>().ok()).collect::<Option<Vec<_>>>()?;
            if v.len() != 3 {
                return None;
            }
            Some(Triple { subject: v[0], predicate: v[1], object: v[2] })
        })
        .collect()
}
fn parse_constraints(s: &str) -> Option<Vec<Vec<Pat>>> {
    if s == "-" {
        return Some(vec![]);
    }
    s.split('/').map(parse_pats).collect()
}
fn parse_rules(s: &str) -> Option<Vec<(Vec<Pat>, Vec<Pat>)>> {
    if s == "-" {
        return Some(vec![]);
    }
    s.split('/')
        .map(|r| {
            let v: Vec<&str> = r.split('>').collect();
            if v.len() != 2 {
                return None;
            }
            Some((parse_pats(v[0])?, parse_pats(v[1])?))
        })
        .collect()
}
fn mk_rule(prem: &[Pat], concl: &[Pat]) -> Rule {
    Rule { premise: prem.to_vec(), negative_premise: vec![], filters: vec![], conclusion: concl.to_vec() }
}

fn show_facts<'a, I: IntoIterator<Item = &'a Triple>>(it: I) -> String {
    let v: BTreeSet<(u32, u32, u32)> = it.into_iter().map(|t| (t.subject, t.predicate, t.object)).collect();
    format!("[{}]", v.iter().map(|(s, p, o)| format!("{}.{}.{}", s, p, o)).collect::<Vec<_>>().join(";"))
}
fn show_bindings(res: &[HashMap<String, u32>]) -> String {
    let mut v: Vec<String> = res
        .iter()
        .map(|b| {
            let m: BTreeMap<&String, &u32> = b.iter().collect();
            if m.is_empty() { "T".to_string() } else { m.iter().map(|(k, x)| format!("{}={}", k, x)).collect::<Vec<_>>().join(",") }
        })
        .collect();
    v.sort();
    format!("[{}]", v.join(";"))
}

fn build(facts: &[Triple], cs: &[Vec<Pat>], rules: &[(Vec<Pat>, Vec<Pat>)]) -> Reasoner {
    let mut r = Reasoner::new();
    for f in facts {
        r.insert_ground_triple(f.clone());
    }
    for c in cs {
        r.add_constraint(mk_rule(c, &[]));
    }
    for (p, c) in rules {
        r.add_rule(mk_rule(p, c));
    }
    r
}

// ---- an independent, brute-force reading of "consistent", "derivable", "closed" (used only to describe the
//      outcome of the order-dependent materialisation; the repo's join code is not used here) ------------------
fn match_all(pats: &[Pat], facts: &BTreeSet<(u32, u32, u32)>, env: &mut Vec<(String, u32)>, out: &mut Vec<Vec<(String, u32)>>) {
    if pats.is_empty() {
        out.push(env.clone());
        return;
    }
    fn bind(t: &Term, x: u32, env: &mut Vec<(String, u32)>) -> Option<usize> {
        match t {
            Term::Constant(c) => if *c == x { Some(0) } else { None },
            Term::Variable(v) => match env.iter().find(|(k, _)| k == v) {
                Some((_, y)) => if *y == x { Some(0) } else { None },
                None => {
                    env.push((v.clone(), x));
                    Some(1)
                }
            },
            _ => None,
        }
    }
    for f in facts {
        let n0 = env.len();
        let ok = bind(&pats[0].0, f.0, env).is_some() && bind(&pats[0].1, f.1, env).is_some() && bind(&pats[0].2, f.2, env).is_some();
        if ok {
            match_all(&pats[1..], facts, env, out);
        }
        env.truncate(n0);
    }
}
fn violated(cs: &[Vec<Pat>], facts: &BTreeSet<(u32, u32, u32)>) -> bool {
    cs.iter().any(|c| {
        if c.is_empty() {
            return false;
        }
        let mut out = Vec::new();
        match_all(c, facts, &mut Vec::new(), &mut out);
        !out.is_empty()
    })
}
fn consequences(rules: &[(Vec<Pat>, Vec<Pat>)], facts: &BTreeSet<(u32, u32, u32)>) -> BTreeSet<(u32, u32, u32)> {
    let mut res = BTreeSet::new();
    for (p, c) in rules {
        if p.is_empty() {
            continue;
        }
        let mut out = Vec::new();
        match_all(p, facts, &mut Vec::new(), &mut out);
        for env in out {
            let val = |t: &Term| match t {
                Term::Constant(c) => *c,
                Term::Variable(v) => env.iter().find(|(k, _)| k == v).map(|(_, x)| *x).unwrap_or(0),
                _ => 0,
            };
            for q in c {
                res.insert((val(&q.0), val(&q.1), val(&q.2)));
            }
        }
    }
    res
}

fn exec_inner(req: &str) -> Option<String> {
    let t: Vec<&str> = req.split(' ').collect();
    if t.len() != 6 || t[0] != "rep" {
        return None;
    }
    let facts = parse_facts(t[2])?;
    let cs = parse_constraints(t[3])?;
    let rules = parse_rules(t[4])?;
    let goal = parse_pat(t[5])?;
    // every case is repeated on fresh reasoners: hash iteration order differs per HashSet instance
    const REPEAT: usize = 5;
    let mut outs: Vec<String> = Vec::new();
    for _ in 0..REPEAT {
        let o = match t[1] {
            "q" => {
                let r = build(&facts, &cs, &rules);
                show_bindings(&r.query_with_repairs(&goal))
            }
            "r" | "o" => {
                let r = build(&facts, &cs, &rules);
                match hook_repairs(&r) {
                    Some(reps) => format!("{{{}}}", reps.iter().map(|x| show_facts(x.iter())).collect::<Vec<_>>().join("|")),
                    None => "no-hook".to_string(),
                }
            }
            "h" => {
                // a history on ONE reasoner object: tolerant query, repair-aware materialisation, tolerant query again.
                // The second answer must be the answer a fresh reasoner holding the same facts gives (whatever the first
                // query or the materialisation cached); the first answer is the one mode `q` reports.
                let mut r = build(&facts, &cs, &rules);
                let first = show_bindings(&r.query_with_repairs(&goal));
                let _ = r.infer_new_facts_semi_naive_with_repairs();
                let again = show_bindings(&r.query_with_repairs(&goal));
                let now: Vec<Triple> = r.dataset_index.query(None, None, None);
                let fresh = build(&now, &cs, &rules);
                let expect = show_bindings(&fresh.query_with_repairs(&goal));
                // and once more after a plain insertion and removal that leave the fact set unchanged in size
                format!("{} again={}", first, if again == expect { "same".to_string() } else { format!("differs:{}/{}", again, expect) })
            }
            "i" => {
                let mut r = build(&facts, &cs, &rules);
                let inferred = r.infer_new_facts_semi_naive_with_repairs();
                let fin: BTreeSet<(u32, u32, u32)> =
                    r.dataset_index.query(None, None, None).iter().map(|t| (t.subject, t.predicate, t.object)).collect();
                let inf: BTreeSet<(u32, u32, u32)> = inferred.iter().map(|t| (t.subject, t.predicate, t.object)).collect();
                let orig: BTreeSet<(u32, u32, u32)> = facts.iter().map(|t| (t.subject, t.predicate, t.object)).collect();
                let base: BTreeSet<(u32, u32, u32)> = fin.iter().filter(|f| orig.contains(f) && !inf.contains(f)).cloned().collect();
                let cons = !violated(&cs, &fin);
                // closed: every rule consequence of the final set is in it, or cannot be added consistently
                let closed = consequences(&rules, &fin).iter().all(|f| {
                    fin.contains(f) || {
                        let mut x = fin.clone();
                        x.insert(*f);
                        violated(&cs, &x)
                    }
                });
                // sound: final = base ∪ inferred, and everything is in the least model of the rules over base
                let mut lm = base.clone();
                loop {
                    let add: Vec<_> = consequences(&rules, &lm).into_iter().filter(|f| !lm.contains(f)).collect();
                    if add.is_empty() {
                        break;
                    }
                    lm.extend(add);
                }
                let sound = fin.iter().all(|f| lm.contains(f)) && fin.iter().all(|f| base.contains(f) || inf.contains(f))
                    && inf.iter().all(|f| fin.contains(f)) && inferred.len() == inf.len();
                let b2s = |b: bool| if b { "t" } else { "f" };
                let show = |s: &BTreeSet<(u32, u32, u32)>| format!("[{}]", s.iter().map(|(s, p, o)| format!("{}.{}.{}", s, p, o)).collect::<Vec<_>>().join(";"));
                format!("base={} cons={} closed={} sound={} final={}", show(&base), b2s(cons), b2s(closed), b2s(sound), show(&fin))
            }
            _ => return None,
        };
        outs.push(o);
    }
    let distinct: BTreeSet<&String> = outs.iter().collect();
    if t[1] == "i" && distinct.len() > 1 {
        // the materialisation outcome may legitimately depend on hash order; everything before `final=` may not
        let heads: BTreeSet<&str> = outs.iter().map(|o| &o[..o.rfind(" final=").unwrap_or(o.len())]).collect();
        if heads.len() == 1 {
            return Some(format!("{} final=unstable", heads.iter().next().unwrap()));
        }
    }
    if distinct.len() == 1 {
        Some(outs[0].clone())
    } else {
        Some(format!("unstable({}-of-{}):{}", distinct.len(), REPEAT, distinct.into_iter().cloned().collect::<Vec<_>>().join("~")))
    }
}

// ---- generation ------------------------------------------------------------------------------------------
const PREDS: [u32; 3] = [10, 11, 12];
const TYPE: u32 = 10;
const CLASSES: [u32; 3] = [20, 21, 22];

fn show_term(t: &Term) -> String {
    match t {
        Term::Variable(v) => format!("?{}", v),
        Term::Constant(c) => c.to_string(),
        _ => "?".into(),
    }
}
fn show_pat(p: &Pat) -> String {
    format!("{}.{}.{}", show_term(&p.0), show_term(&p.1), show_term(&p.2))
}
fn var(s: &str) -> Term {
    Term::Variable(s.to_string())
}
fn cst(c: u32) -> Term {
    Term::Constant(c)
}

fn gen_fact(rng: &mut Rng, ne: usize) -> (u32, u32, u32) {
    if rng.chance(1, 2) {
        (rng.below(ne) as u32, TYPE, *rng.pick(&CLASSES))
    } else {
        (rng.below(ne) as u32, *rng.pick(&PREDS[1..]), rng.below(ne) as u32)
    }
}

fn gen_constraint(rng: &mut Rng, ne: usize, stats: &mut Stats) -> Vec<Pat> {
    match rng.below(9) {
        0 | 1 | 2 => {
            stats.hit("c_disjoint_classes");
            let a = *rng.pick(&CLASSES);
            let mut b = *rng.pick(&CLASSES);
            if b == a {
                b = CLASSES[((a - 20 + 1) % 3) as usize];
            }
            vec![(var("x"), cst(TYPE), cst(a)), (var("x"), cst(TYPE), cst(b))]
        }
        3 => {
            stats.hit("c_asymmetric");
            let p = *rng.pick(&PREDS[1..]);
            vec![(var("x"), cst(p), var("y")), (var("y"), cst(p), var("x"))]
        }
        4 => {
            stats.hit("c_irreflexive");
            vec![(var("x"), cst(*rng.pick(&PREDS[1..])), var("x"))]
        }
        5 => {
            stats.hit("c_two_preds");
            vec![(var("x"), cst(11), var("y")), (var("x"), cst(12), var("y"))]
        }
        6 => {
            stats.hit("c_single_const");
            vec![(cst(rng.below(ne) as u32), var("p"), var("y"))]
        }
        7 => {
            stats.hit("c_three_premises");
            vec![(var("x"), cst(11), var("y")), (var("y"), cst(11), var("z")), (var("z"), cst(TYPE), cst(*rng.pick(&CLASSES)))]
        }
        _ => {
            stats.hit("c_class_vs_edge");
            vec![(var("x"), cst(TYPE), cst(*rng.pick(&CLASSES))), (var("x"), var("p"), var("x"))]
        }
    }
}

fn gen_goal(rng: &mut Rng, ne: usize, stats: &mut Stats) -> Pat {
    match rng.below(7) {
        0 | 1 => {
            stats.hit("g_all_vars");
            (var("s"), var("p"), var("o"))
        }
        2 => {
            stats.hit("g_pred_const");
            (var("X"), cst(*rng.pick(&PREDS)), var("Y"))
        }
        3 => {
            stats.hit("g_type_of");
            (var("X"), cst(TYPE), cst(*rng.pick(&CLASSES)))
        }
        4 => {
            stats.hit("g_repeated_var");
            (var("X"), var("p"), var("X"))
        }
        5 => {
            stats.hit("g_subject_const");
            (cst(rng.below(ne) as u32), var("p"), var("o"))
        }
        _ => {
            stats.hit("g_ground");
            let f = gen_fact(rng, ne);
            (cst(f.0), cst(f.1), cst(f.2))
        }
    }
}

fn gen_rule(rng: &mut Rng, stats: &mut Stats) -> (Vec<Pat>, Vec<Pat>) {
    match rng.below(5) {
        0 => {
            stats.hit("r_subclass");
            let a = *rng.pick(&CLASSES);
            let b = *rng.pick(&CLASSES);
            (vec![(var("x"), cst(TYPE), cst(a))], vec![(var("x"), cst(TYPE), cst(b))])
        }
        1 => {
            stats.hit("r_inverse");
            (vec![(var("x"), cst(11), var("y"))], vec![(var("y"), cst(12), var("x"))])
        }
        2 => {
            stats.hit("r_transitive");
            let p = *rng.pick(&PREDS[1..]);
            (vec![(var("x"), cst(p), var("y")), (var("y"), cst(p), var("z"))], vec![(var("x"), cst(p), var("z"))])
        }
        3 => {
            stats.hit("r_domain_two_heads");
            (vec![(var("x"), cst(11), var("y"))], vec![(var("x"), cst(TYPE), cst(*rng.pick(&CLASSES))), (var("y"), cst(TYPE), cst(*rng.pick(&CLASSES)))])
        }
        _ => {
            stats.hit("r_join_class");
            (vec![(var("x"), cst(TYPE), cst(*rng.pick(&CLASSES))), (var("x"), cst(12), var("y"))], vec![(var("y"), cst(TYPE), cst(*rng.pick(&CLASSES)))])
        }
    }
}

fn line(mode: &str, facts: &[(u32, u32, u32)], cs: &[Vec<Pat>], rules: &[(Vec<Pat>, Vec<Pat>)], goal: &Pat) -> String {
    let f = if facts.is_empty() { "-".to_string() } else { facts.iter().map(|(s, p, o)| format!("{}.{}.{}", s, p, o)).collect::<Vec<_>>().join(";") };
    let pats = |v: &Vec<Pat>| if v.is_empty() { "-".to_string() } else { v.iter().map(show_pat).collect::<Vec<_>>().join(",") };
    let c = if cs.is_empty() { "-".to_string() } else { cs.iter().map(pats).collect::<Vec<_>>().join("/") };
    let r = if rules.is_empty() { "-".to_string() } else { rules.iter().map(|(p, q)| format!("{}>{}", pats(p), pats(q))).collect::<Vec<_>>().join("/") };
    format!("rep {} {} {} {} {}", mode, f, c, r, show_pat(goal))
}

impl Prop for C19 {
    fn id(&self) -> &'static str {
        "rep"
    }
    fn cases(&self, tier: Tier) -> usize {
        match tier {
            Tier::Quick => 4000,
            Tier::Thorough => 20000,
        }
    }

    /// all fact subsets of a 6-fact universe with two conflicts, against the two-constraint set, for the
    /// all-variables goal (answers) and, with the hook, the repair list
    fn exhaustive(&self, tier: Tier, stats: &mut Stats) -> Vec<String> {
        let uni: Vec<(u32, u32, u32)> = vec![(0, 10, 20), (0, 10, 21), (1, 11, 2), (2, 11, 1), (1, 10, 20), (3, 12, 3)];
        let cs: Vec<Vec<Pat>> = vec![
            vec![(var("x"), cst(10), cst(20)), (var("x"), cst(10), cst(21))],
            vec![(var("x"), cst(11), var("y")), (var("y"), cst(11), var("x"))],
        ];
        let goal = (var("s"), var("p"), var("o"));
        let n = if tier == Tier::Quick { 5 } else { 6 };
        let mut out = Vec::new();
        for mask in 0..(1u32 << n) {
            let fs: Vec<_> = (0..n).filter(|i| mask & (1 << i) != 0).map(|i| uni[i]).collect();
            out.push(line("q", &fs, &cs, &[], &goal));
            if hook_present() {
                out.push(line("r", &fs, &cs, &[], &goal));
            }
            stats.hit("exhaustive_subset");
        }
        out
    }

    fn gen(&self, rng: &mut Rng, tier: Tier, _i: usize, stats: &mut Stats) -> String {
        let ne = rng.range(2, 4);
        let maxf = if tier == Tier::Quick { 7 } else { 8 };
        let nf = rng.range(0, maxf);
        let mut facts: Vec<(u32, u32, u32)> = Vec::new();
        for _ in 0..nf {
            let f = gen_fact(rng, ne);
            if !facts.contains(&f) {
                facts.push(f);
            }
        }
        let nc = rng.range(0, 3);
        let cs: Vec<Vec<Pat>> = (0..nc).map(|_| gen_constraint(rng, ne, stats)).collect();
        let mut goal = gen_goal(rng, ne, stats);
        let mut cs = cs;
        if rng.chance(1, 4) {
            // one fact in conflict with several mutually compatible facts: the maximal repairs have different sizes
            stats.hit("hub_conflict");
            let hub = rng.below(ne) as u32;
            match rng.below(2) {
                0 => {
                    // x is of class A  vs  x p y (any y)
                    let a = *rng.pick(&CLASSES);
                    let pr = *rng.pick(&PREDS[1..]);
                    facts.push((hub, TYPE, a));
                    for y in 0..rng.range(2, 3) {
                        facts.push((hub, pr, y as u32));
                    }
                    cs.push(vec![(var("x"), cst(TYPE), cst(a)), (var("x"), cst(pr), var("y"))]);
                }
                _ => {
                    // class A is disjoint from B and from C
                    facts.push((hub, TYPE, CLASSES[0]));
                    facts.push((hub, TYPE, CLASSES[1]));
                    facts.push((hub, TYPE, CLASSES[2]));
                    cs.push(vec![(var("x"), cst(TYPE), cst(CLASSES[0])), (var("x"), cst(TYPE), cst(CLASSES[1]))]);
                    cs.push(vec![(var("x"), cst(TYPE), cst(CLASSES[0])), (var("x"), cst(TYPE), cst(CLASSES[2]))]);
                }
            }
            facts.sort();
            facts.dedup();
            rng.shuffle(&mut facts);
        }
        let mut rules_pre: Vec<(Vec<Pat>, Vec<Pat>)> = Vec::new();
        let k = rng.below(10);
        if k >= 8 {
            let nr = rng.range(1, 3);
            rules_pre = (0..nr).map(|_| gen_rule(rng, stats)).collect();
        }
        if rng.chance(2, 3) {
            // the identifiers carry no meaning: any renaming (any dictionary encoding order) must give the same answers,
            // although it changes every internal sort and hash order
            stats.hit("ids_permuted");
            let mut perm: Vec<u32> = (0..24).collect();
            rng.shuffle(&mut perm);
            let pt = |t: &Term| match t {
                Term::Constant(c) if (*c as usize) < perm.len() => Term::Constant(perm[*c as usize]),
                other => other.clone(),
            };
            let pp = |p: &Pat| (pt(&p.0), pt(&p.1), pt(&p.2));
            for f in facts.iter_mut() {
                *f = (perm[f.0 as usize], perm[f.1 as usize], perm[f.2 as usize]);
            }
            for c in cs.iter_mut() {
                *c = c.iter().map(pp).collect();
            }
            for r in rules_pre.iter_mut() {
                *r = (r.0.iter().map(pp).collect(), r.1.iter().map(pp).collect());
            }
            goal = pp(&goal);
        }
        stats.hit(&format!("facts_{}", facts.len()));
        stats.hit(&format!("constraints_{}", cs.len()));
        if k < 5 {
            stats.hit("mode_query");
            line("q", &facts, &cs, &[], &goal)
        } else if k < 8 {
            if hook_present() {
                stats.hit("mode_repairs");
                line("r", &facts, &cs, &[], &goal)
            } else {
                stats.hit("mode_query(no-hook)");
                line("q", &facts, &cs, &[], &goal)
            }
        } else if k == 8 && rng.chance(1, 2) {
            stats.hit("mode_history_query_infer_query");
            line("h", &facts, &cs, &rules_pre, &goal)
        } else {
            stats.hit("mode_infer");
            line("i", &facts, &cs, &rules_pre, &goal)
        }
    }

    fn exec(&self, req: &str) -> String {
        exec_inner(req).unwrap_or_else(|| "bad-request".to_string())
    }
}
