//! C10 — each firing of a single-window continuous query sees exactly the current window.
//! Protocol documented in lean/Kolibrie/Driver/C10.lean.
//!
//! Request: `rsp <S|M|M<seed>> <R|I|D> <width> <slide> <query> <rules> <event>…`
//!   mode   = `S` single-thread | `M` multi-thread | `M<seed>` multi-thread with seeded schedule perturbation
//!   query  = `t,t,t;t,t,t…`  (term: `vN` variable | `N` constant id)
//!   rules  = `-` | `body=>head|body=>head…` (body/head = patterns as in query)
//!   event  = `ts:s,p,o` (add one triple at time ts) | `STOP` (engine.stop(): flush + stop)
//! Reply:  `W {content} {content}… E [rows] [rows]…` — the contents an independent probe window with the same
//!   parameters reported (sorted) and, per firing of the engine, the rows handed to the ResultConsumer (sorted).
use super::{Prop, Stats, Tier};
use crate::rng::Rng;
use kolibrie::rsp::r2r::{AsAnyMut, R2ROperator};
use kolibrie::rsp::s2r::{CSPARQLWindow, ContentContainer, Report, ReportStrategy, Tick};
use kolibrie::rsp_engine::{OperationMode, QueryExecutionMode, RSPBuilder, RSPEngine, ResultConsumer, SimpleR2R};
use kolibrie::streamertail_optimizer::PhysicalOperator;
use shared::triple::Triple;
use std::sync::{Arc, Mutex};

pub struct C10;

/// The engine prints progress lines with `println!`; `kverif exec` answers on stdout, one line per request.  While a
/// request runs, fd 1 is pointed at /dev/null (reference-counted, so parallel `gen` workers share one redirection).
pub mod gag {
    use std::io::Write;
    use std::os::fd::AsRawFd;
    use std::sync::Mutex;
    extern "C" {
        fn dup(fd: i32) -> i32;
        fn dup2(oldfd: i32, newfd: i32) -> i32;
        fn close(fd: i32) -> i32;
    }
    static STATE: Mutex<(usize, i32)> = Mutex::new((0, -1));
    pub struct Gag;
    impl Gag {
        pub fn new() -> Gag {
            let mut s = STATE.lock().unwrap_or_else(|e| e.into_inner());
            if s.0 == 0 {
                let _ = std::io::stdout().flush();
                if let Ok(null) = std::fs::OpenOptions::new().write(true).open("/dev/null") {
                    unsafe {
                        s.1 = dup(1);
                        dup2(null.as_raw_fd(), 1);
                    }
                }
            }
            s.0 += 1;
            Gag
        }
    }
    impl Drop for Gag {
        fn drop(&mut self) {
            let mut s = STATE.lock().unwrap_or_else(|e| e.into_inner());
            s.0 -= 1;
            if s.0 == 0 && s.1 >= 0 {
                let _ = std::io::stdout().flush();
                unsafe {
                    dup2(s.1, 1);
                    close(s.1);
                }
                s.1 = -1;
            }
        }
    }
}

pub const IRI: &str = "http://t/";

#[derive(Clone, Debug, PartialEq, Eq)]
pub enum Tm {
    V(u32),
    C(u32),
}
pub type Pat = (Tm, Tm, Tm);

pub fn parse_tm(s: &str) -> Option<Tm> {
    if let Some(r) = s.strip_prefix('v') {
        r.parse().ok().map(Tm::V)
    } else {
        s.parse().ok().map(Tm::C)
    }
}
pub fn parse_pats(s: &str) -> Option<Vec<Pat>> {
    if s == "-" || s.is_empty() {
        return Some(vec![]);
    }
    s.split(';')
        .map(|p| {
            let v: Vec<&str> = p.split(',').collect();
            if v.len() != 3 {
                return None;
            }
            Some((parse_tm(v[0])?, parse_tm(v[1])?, parse_tm(v[2])?))
        })
        .collect()
}
pub fn parse_rules(s: &str) -> Option<Vec<(Vec<Pat>, Vec<Pat>)>> {
    if s == "-" {
        return Some(vec![]);
    }
    s.split('|')
        .map(|r| {
            let (b, h) = r.split_once("=>")?;
            let b = parse_pats(b)?;
            let h = parse_pats(h)?;
            if b.is_empty() || h.is_empty() {
                return None;
            }
            Some((b, h))
        })
        .collect()
}
pub fn tm_text(t: &Tm) -> String {
    match t {
        Tm::V(n) => format!("?v{}", n),
        Tm::C(n) => format!("<{}{}>", IRI, n),
    }
}
pub fn pats_text(ps: &[Pat]) -> String {
    ps.iter().map(|(s, p, o)| format!("{} {} {} . ", tm_text(s), tm_text(p), tm_text(o))).collect()
}
pub fn rules_text(rs: &[(Vec<Pat>, Vec<Pat>)]) -> String {
    // no terminating dot: `load_rules` stops (with a logged error) at the first rule followed by ` .`
    rs.iter().map(|(b, h)| format!("{{ {}}} => {{ {}}}\n", pats_text(b), pats_text(h))).collect()
}
pub fn nt_line(s: u32, p: u32, o: u32) -> String {
    format!("<{}{}> <{}{}> <{}{}> .", IRI, s, IRI, p, IRI, o)
}
/// decoded term -> id (strips the IRI prefix and optional brackets)
pub fn term_id(v: &str) -> String {
    let v = v.trim_start_matches('<').trim_end_matches('>');
    v.strip_prefix(IRI).unwrap_or(v).to_string()
}
pub fn show_row(r: &[(String, String)]) -> String {
    let mut kv: Vec<(String, String)> = r.iter().map(|(k, v)| (k.trim_start_matches('?').to_string(), term_id(v))).collect();
    kv.sort();
    kv.iter().map(|(k, v)| format!("{}={}", k, v)).collect::<Vec<_>>().join(",")
}
pub fn show_rows(rows: &[Vec<(String, String)>]) -> String {
    let mut v: Vec<String> = rows.iter().map(|r| show_row(r)).collect();
    v.sort();
    format!("[{}]", v.join(";"))
}

pub enum Ev {
    Add(usize, u32, u32, u32),
    Stop,
}
pub fn parse_ev(s: &str) -> Option<Ev> {
    if s == "STOP" {
        return Some(Ev::Stop);
    }
    let (ts, t) = s.split_once(':')?;
    let v: Vec<u32> = t.split(',').map(|x| x.parse().ok()).collect::<Option<Vec<_>>>()?;
    if v.len() != 3 {
        return None;
    }
    Some(Ev::Add(ts.parse().ok()?, v[0], v[1], v[2]))
}

/// what the engine did, in order: one `Query` marker per window-query execution, then the rows it emitted
pub enum Log {
    Query,
    Row(Vec<(String, String)>),
}

/// SimpleR2R behind a transparent wrapper that only records when the window query is executed (firing boundary).
/// `as_any_mut` exposes the inner SimpleR2R so the engine's own downcasts behave exactly as without the wrapper.
pub struct MarkR2R {
    pub inner: SimpleR2R,
    pub log: Arc<Mutex<Vec<Log>>>,
    /// schedule perturbation inside the worker thread (seeded; `None` = no perturbation)
    pub jitter: Option<Jitter>,
}

/// Seeded schedule perturbation: short sleeps / yields at the points the harness controls — in the producer thread
/// between `add` calls, and in the worker thread inside the R2R calls (store mutex held) and in the consumer callback.
#[derive(Clone)]
pub struct Jitter {
    state: Arc<Mutex<u64>>,
}
impl Jitter {
    pub fn new(seed: u64) -> Self {
        Jitter { state: Arc::new(Mutex::new(seed.wrapping_mul(0x9E3779B97F4A7C15) | 1)) }
    }
    pub fn point(&self) {
        let r = {
            let mut s = self.state.lock().unwrap();
            *s ^= *s << 13;
            *s ^= *s >> 7;
            *s ^= *s << 17;
            *s
        };
        match r % 8 {
            0 | 1 => std::thread::yield_now(),
            2 => std::thread::sleep(std::time::Duration::from_micros(20 + (r >> 8) % 200)),
            3 => std::thread::sleep(std::time::Duration::from_micros(200 + (r >> 8) % 600)),
            _ => {}
        }
    }
}
pub fn jit(j: &Option<Jitter>) {
    if let Some(j) = j {
        j.point();
    }
}
impl AsAnyMut for MarkR2R {
    fn as_any_mut(&mut self) -> &mut dyn std::any::Any {
        self.inner.as_any_mut()
    }
}
impl R2ROperator<Triple, Vec<PhysicalOperator>, Vec<(String, String)>> for MarkR2R {
    fn load_triples(&mut self, data: &str, syntax: String) -> Result<(), String> {
        self.inner.load_triples(data, syntax)
    }
    fn load_rules(&mut self, data: &str) -> Result<(), &'static str> {
        self.inner.load_rules(data)
    }
    fn add(&mut self, data: Triple) {
        self.inner.add(data)
    }
    fn remove(&mut self, data: &Triple) {
        self.inner.remove(data)
    }
    fn materialize(&mut self) -> Vec<Triple> {
        jit(&self.jitter);
        self.inner.materialize()
    }
    fn execute_query(&mut self, op: &PhysicalOperator) -> Vec<Vec<(String, String)>> {
        jit(&self.jitter);
        let r = self.inner.execute_query(op);
        self.log.lock().unwrap().push(Log::Query);
        r
    }
    fn parse_data(&mut self, data: &str) -> Vec<Triple> {
        self.inner.parse_data(data)
    }
}

pub fn probe_window(width: usize, slide: usize) -> (CSPARQLWindow<(u32, u32, u32)>, Arc<Mutex<Vec<Vec<(u32, u32, u32)>>>>) {
    let mut report = Report::new();
    report.add(ReportStrategy::OnWindowClose);
    let mut w = CSPARQLWindow::new(width, slide, report, Tick::TimeDriven, "probe".to_string());
    let got: Arc<Mutex<Vec<Vec<(u32, u32, u32)>>>> = Arc::new(Mutex::new(Vec::new()));
    let g2 = Arc::clone(&got);
    w.register_callback(Box::new(move |c: ContentContainer<(u32, u32, u32)>| {
        let mut v: Vec<(u32, u32, u32)> = c.iter().cloned().collect();
        v.sort();
        g2.lock().unwrap().push(v);
    }));
    (w, got)
}
pub fn show_content(c: &[(u32, u32, u32)]) -> String {
    format!("{{{}}}", c.iter().map(|(s, p, o)| format!("{}.{}.{}", s, p, o)).collect::<Vec<_>>().join(";"))
}

fn run(req: &str) -> Option<String> {
    let toks: Vec<&str> = req.split(' ').collect();
    if toks.len() < 7 || toks[0] != "rsp" {
        return None;
    }
    // `S` single-thread | `M` multi-thread | `M<seed>` multi-thread with seeded schedule perturbation
    // `MG`: multi-thread, burst: every event is parsed first and then pushed back-to-back while the consumer's first call is
    // held at a gate (opened when the producer is done, or after 500 ms so that a producer that legitimately blocks on
    // back-pressure cannot deadlock): the worker lags many firings behind, none of which may be lost or reordered
    let gate_mode = toks[1] == "MG";
    let (multi, jitter) = match toks[1] {
        "S" => (false, None),
        "M" | "MG" => (true, None),
        m if m.starts_with('M') => (true, Some(Jitter::new(m[1..].parse().ok()?))),
        _ => return None,
    };
    let gate: Arc<(Mutex<bool>, std::sync::Condvar)> = Arc::new((Mutex::new(!gate_mode), std::sync::Condvar::new()));
    let op = match toks[2] {
        "R" => "RSTREAM",
        "I" => "ISTREAM",
        "D" => "DSTREAM",
        _ => return None,
    };
    let width: usize = toks[3].parse().ok()?;
    let slide: usize = toks[4].parse().ok()?;
    if width == 0 || slide == 0 {
        return None;
    }
    let query = parse_pats(toks[5])?;
    if query.is_empty() {
        return None;
    }
    let rules = parse_rules(toks[6])?;
    let evs: Vec<Ev> = toks[7..].iter().map(|t| parse_ev(t)).collect::<Option<Vec<_>>>()?;

    let log: Arc<Mutex<Vec<Log>>> = Arc::new(Mutex::new(Vec::new()));
    let l2 = Arc::clone(&log);
    let j2 = jitter.clone();
    let g2 = Arc::clone(&gate);
    let consumer = ResultConsumer {
        function: Arc::new(move |r: Vec<(String, String)>| {
            jit(&j2);
            {
                let (m, cv) = &*g2;
                let open = m.lock().unwrap();
                if !*open {
                    let _ = cv.wait_timeout_while(open, std::time::Duration::from_millis(500), |o| !*o);
                }
            }
            l2.lock().unwrap().push(Log::Row(r));
        }),
    };
    let r2r = Box::new(MarkR2R { inner: SimpleR2R::with_execution_mode(QueryExecutionMode::Volcano), log: Arc::clone(&log), jitter: jitter.clone() });
    let text = format!(
        "REGISTER {} <http://out/stream> AS\nSELECT *\nFROM NAMED WINDOW :w ON ?stream [RANGE {} STEP {}]\nWHERE {{ WINDOW :w {{ {}}} }}",
        op,
        width,
        slide,
        pats_text(&query)
    );
    let rtext = rules_text(&rules);
    let mut b = RSPBuilder::new()
        .add_rsp_ql_query(&text)
        .add_consumer(consumer)
        .add_r2r(r2r)
        .set_operation_mode(if multi { OperationMode::MultiThread } else { OperationMode::SingleThread });
    if !rules.is_empty() {
        b = b.add_rules(&rtext);
    }
    let mut engine: RSPEngine<Triple, Vec<(String, String)>> = match b.build() {
        Ok(e) => e,
        Err(e) => return Some(format!("build-error:{}", e.replace(' ', "_"))),
    };
    let (mut probe, got) = probe_window(width, slide);
    let mut parsed: Vec<Vec<Triple>> = Vec::new();
    if gate_mode {
        for ev in &evs {
            parsed.push(match ev {
                Ev::Add(_, s, p, o) => engine.parse_data(&nt_line(*s, *p, *o)),
                Ev::Stop => Vec::new(),
            });
        }
    }
    for (k, ev) in evs.iter().enumerate() {
        match ev {
            Ev::Add(ts, s, p, o) => {
                jit(&jitter);
                let ts_ = if gate_mode { std::mem::take(&mut parsed[k]) } else { engine.parse_data(&nt_line(*s, *p, *o)) };
                for t in ts_ {
                    engine.add(t, *ts);
                }
                probe.add_to_window((*s, *p, *o), *ts);
            }
            Ev::Stop => {
                engine.stop();
                probe.flush();
                probe.stop();
            }
        }
    }
    {
        let (m, cv) = &*gate;
        *m.lock().unwrap() = true;
        cv.notify_all();
    }
    // Dropping the engine drops the windows' senders; every worker thread then leaves its loop and drops its clone
    // of the consumer closure (which holds `log`).  When we hold the only reference, all threads have finished.
    drop(engine);
    let mut spins = 0u64;
    while Arc::strong_count(&log) > 1 {
        std::thread::sleep(std::time::Duration::from_micros(200));
        spins += 1;
        if spins > 100_000 {
            return Some("timeout-waiting-for-workers".to_string());
        }
    }
    let mut firings: Vec<Vec<Vec<(String, String)>>> = Vec::new();
    let mut stray = 0;
    for e in log.lock().unwrap().iter() {
        match e {
            Log::Query => firings.push(Vec::new()),
            Log::Row(r) => match firings.last_mut() {
                Some(f) => f.push(r.clone()),
                None => stray += 1,
            },
        }
    }
    let ws: Vec<String> = got.lock().unwrap().iter().map(|c| show_content(c)).collect();
    let es: Vec<String> = firings.iter().map(|f| show_rows(f)).collect();
    let mut out = format!("W {} E {}", ws.join(" "), es.join(" "));
    if stray > 0 {
        out.push_str(&format!(" stray={}", stray));
    }
    Some(out.replace("  ", " ").trim_end().to_string())
}

fn show_tm(t: &Tm) -> String {
    match t {
        Tm::V(n) => format!("v{}", n),
        Tm::C(n) => n.to_string(),
    }
}
pub fn show_pats(ps: &[Pat]) -> String {
    ps.iter().map(|(s, p, o)| format!("{},{},{}", show_tm(s), show_tm(p), show_tm(o))).collect::<Vec<_>>().join(";")
}
fn vars_of(ps: &[Pat]) -> Vec<u32> {
    let mut v = Vec::new();
    for (s, p, o) in ps {
        for t in [s, p, o] {
            if let Tm::V(n) = t {
                if !v.contains(n) {
                    v.push(*n);
                }
            }
        }
    }
    v
}

/// entity ids 1..=NE, predicate ids 10..10+NP; everything lives in one small vocabulary so that raw, derived and
/// queried triples collide often
pub const NE: usize = 4;
pub const NP: usize = 3;

pub fn gen_entity(rng: &mut Rng) -> u32 {
    rng.range(1, NE) as u32
}
pub fn gen_pred(rng: &mut Rng) -> u32 {
    10 + rng.below(NP) as u32
}
/// a connected-ish BGP over variables v0..; `fresh` limits the number of variables
pub fn gen_bgp(rng: &mut Rng, npat: usize, maxvar: u32, stats: &mut Stats, tag: &str) -> Vec<Pat> {
    let mut ps = Vec::new();
    for k in 0..npat {
        let s = if rng.chance(5, 6) { Tm::V(rng.below((maxvar as usize).min(k + 1) + 0) as u32) } else { Tm::C(gen_entity(rng)) };
        let p = if rng.chance(1, 10) {
            stats.hit(&format!("{}_var_predicate", tag));
            Tm::V(rng.below(maxvar as usize) as u32)
        } else {
            Tm::C(gen_pred(rng))
        };
        let o = if rng.chance(3, 5) { Tm::V(rng.below(maxvar as usize) as u32) } else { Tm::C(gen_entity(rng)) };
        if s == o {
            stats.hit(&format!("{}_repeated_var", tag));
        }
        ps.push((s, p, o));
    }
    ps
}
pub fn gen_rules(rng: &mut Rng, stats: &mut Stats) -> Vec<(Vec<Pat>, Vec<Pat>)> {
    let n = match rng.below(10) {
        0..=2 => 0,
        3..=6 => 1,
        7..=8 => 2,
        _ => 3,
    };
    let mut rs = Vec::new();
    for _ in 0..n {
        let nb = if rng.chance(2, 3) { 1 } else { 2 };
        let body = gen_bgp(rng, nb, 3, stats, "rule");
        let bv = vars_of(&body);
        let nh = if rng.chance(4, 5) { 1 } else { 2 };
        let mut head = Vec::new();
        for _ in 0..nh {
            let mut pick = |rng: &mut Rng, ent: bool| -> Tm {
                if !bv.is_empty() && rng.chance(2, 3) {
                    Tm::V(*rng.pick(&bv))
                } else if ent {
                    Tm::C(gen_entity(rng))
                } else {
                    Tm::C(gen_pred(rng))
                }
            };
            let s = pick(rng, true);
            let p = if rng.chance(9, 10) { Tm::C(gen_pred(rng)) } else { pick(rng, false) };
            let o = pick(rng, true);
            head.push((s, p, o));
        }
        if nb == 2 {
            stats.hit("rule_two_premises");
        }
        rs.push((body, head));
    }
    stats.hit(&format!("rules_{}", n));
    rs
}
/// in-order timestamps with gaps; `disorder` makes a (malformed) out-of-order stream
pub fn gen_events(rng: &mut Rng, n: usize, width: usize, disorder: bool, stats: &mut Stats) -> Vec<(usize, u32, u32, u32)> {
    let mut ts = rng.below(3);
    let mut evs = Vec::new();
    let mut recent: Vec<(u32, u32, u32)> = Vec::new();
    for _ in 0..n {
        let step = match rng.below(10) {
            0..=2 => 0,
            3..=6 => 1,
            7..=8 => 2,
            _ => rng.range(2, 2 * width + 1),
        };
        if step > width {
            stats.hit("gap_larger_than_width");
        }
        ts += step;
        let t = if !recent.is_empty() && rng.chance(1, 6) {
            stats.hit("repeated_triple");
            *rng.pick(&recent)
        } else {
            (gen_entity(rng), gen_pred(rng), gen_entity(rng))
        };
        recent.push(t);
        let mut at = ts;
        if disorder && rng.chance(1, 4) {
            at = ts.saturating_sub(rng.range(1, 3));
        }
        evs.push((at, t.0, t.1, t.2));
    }
    evs
}

impl C10 {
    fn random_case(&self, rng: &mut Rng, tier: Tier, stats: &mut Stats) -> String {
        if rng.chance(1, 120) {
            // a window holding well over a hundred items (mostly unrelated to the query) and a three-premise rule: what a firing
            // derives must not depend on how much else is in the window
            stats.hit("large_window_three_premise_rule");
            let multi = rng.chance(1, 2);
            let width = 400;
            let nfill = rng.range(100, 180);
            let (pa, pb, ph) = (10u32, 11u32, 12u32);
            let body = vec![(Tm::V(0), Tm::C(pa), Tm::V(1)), (Tm::V(1), Tm::C(pa), Tm::V(2)), (Tm::V(2), Tm::C(pb), Tm::V(3))];
            let head = vec![(Tm::V(0), Tm::C(ph), Tm::V(3))];
            let query = vec![(Tm::V(0), Tm::C(ph), Tm::V(1))];
            let mut toks: Vec<String> = vec![
                "rsp".into(),
                if multi { "M".into() } else { "S".into() },
                (*rng.pick(&["R", "I"])).into(),
                width.to_string(),
                width.to_string(),
                show_pats(&query),
                format!("{}=>{}", show_pats(&body), show_pats(&head)),
            ];
            let mut evs: Vec<(usize, u32, u32, u32)> = vec![(1, 1, pa, 2), (2, 2, pa, 3), (3, 3, pb, 4)];
            for i in 0..nfill {
                evs.push((4 + i, 100 + i as u32, 13, 300 + (i % 7) as u32));
            }
            rng.shuffle(&mut evs);
            evs.sort_by_key(|e| e.0);
            // the three chain items at random positions of the (in-order) stream
            let k = evs.len();
            for (j, e) in evs.iter_mut().enumerate() {
                e.0 = 1 + j * 390 / k;
            }
            for (ts, s, p, o) in evs {
                toks.push(format!("{}:{},{},{}", ts, s, p, o));
            }
            toks.push(format!("{}:{},{},{}", width + 1, 1, 13, 1));
            toks.push("STOP".into());
            return toks.join(" ");
        }
        let multi = rng.chance(1, 2);
        let op = *rng.pick(&["R", "I", "D"]);
        let width = rng.range(1, 6);
        let slide = if rng.chance(1, 3) { width } else { rng.range(1, 6) };
        stats.hit(if slide == width { "tumbling" } else if slide < width { "sliding" } else { "hopping_with_holes" });
        stats.hit(&format!("op_{}", op));
        stats.hit(if multi { "mode_multi" } else { "mode_single" });
        let nq = match rng.below(6) {
            0..=2 => 1,
            3..=4 => 2,
            _ => 3,
        };
        let query = gen_bgp(rng, nq, 3, stats, "query");
        stats.hit(&format!("query_patterns_{}", nq));
        let rules = gen_rules(rng, stats);
        let disorder = rng.chance(1, 20);
        if disorder {
            stats.hit("malformed_out_of_order");
        }
        let burst = multi && rng.chance(1, 12);
        let maxn = if tier == Tier::Quick { 14 } else { 40 };
        let n = if burst { rng.range(40, 90) } else { rng.range(1, maxn) };
        let (width, slide) = if burst { (rng.range(1, 3), 1) } else { (width, slide) };
        let evs = gen_events(rng, n, width, disorder, stats);
        let mut toks: Vec<String> = vec![
            "rsp".into(),
            if burst { stats.hit("burst_with_gated_consumer"); "MG".into() } else if multi { if rng.chance(2, 3) { stats.hit("perturbed_schedule"); format!("M{}", rng.range(1, 999_999)) } else { "M".into() } } else { "S".into() },
            op.into(),
            width.to_string(),
            slide.to_string(),
            show_pats(&query),
            if rules.is_empty() { "-".into() } else { rules.iter().map(|(b, h)| format!("{}=>{}", show_pats(b), show_pats(h))).collect::<Vec<_>>().join("|") },
        ];
        for (ts, s, p, o) in evs {
            toks.push(format!("{}:{},{},{}", ts, s, p, o));
        }
        if rng.chance(1, 3) {
            toks.push("STOP".into());
            stats.hit("with_stop_flush");
        }
        toks.join(" ")
    }
}

impl Prop for C10 {
    fn id(&self) -> &'static str {
        "C10"
    }
    fn cases(&self, tier: Tier) -> usize {
        match tier {
            Tier::Quick => 3000,
            Tier::Thorough => 60000,
        }
    }
    /// exhaustive small universe around the eviction logic: tumbling window [2k,2k+2), one rule `p ⇒ q`, query on `q`;
    /// every slot holds any subset (≤ 2) of {a p b, a q c, b q c}; all slot sequences × the three stream operators × modes
    fn exhaustive(&self, tier: Tier, stats: &mut Stats) -> Vec<String> {
        let universe = ["1,10,2", "1,11,3", "2,11,3"];
        let mut subsets: Vec<Vec<&str>> = vec![vec![]];
        for i in 0..universe.len() {
            subsets.push(vec![universe[i]]);
            for j in i + 1..universe.len() {
                subsets.push(vec![universe[i], universe[j]]);
            }
        }
        let slots = if tier == Tier::Quick { 3 } else { 4 };
        let mut out = Vec::new();
        let total = subsets.len().pow(slots as u32);
        for code in 0..total {
            let mut c = code;
            let mut evs: Vec<String> = Vec::new();
            for k in 0..slots {
                let sub = &subsets[c % subsets.len()];
                c /= subsets.len();
                for t in sub {
                    evs.push(format!("{}:{}", 2 * k, t));
                }
            }
            evs.push(format!("{}:4,12,4", 2 * slots));
            for (oi, op) in ["R", "I", "D"].iter().enumerate() {
                let mode = if (code + oi) % 2 == 0 { "S".to_string() } else { format!("M{}", code * 3 + oi + 1) };
                out.push(format!("rsp {} {} 2 2 v0,11,3 v0,10,v1=>v0,11,3 {}", mode, op, evs.join(" ")));
            }
        }
        stats.add("exhaustive_slot_sequences", total as u64);
        out
    }
    fn gen(&self, rng: &mut Rng, tier: Tier, _i: usize, stats: &mut Stats) -> String {
        self.random_case(rng, tier, stats)
    }
    fn exec(&self, req: &str) -> String {
        let _quiet = gag::Gag::new();
        run(req).unwrap_or_else(|| "bad-request".to_string())
    }
}
