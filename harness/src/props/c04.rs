//! C04 — every read path of the store agrees with the set of quads written.
//! Protocol documented in lean/Kolibrie/Driver/C04.lean.
use super::{Prop, Stats, Tier};
use crate::proto::*;
use crate::rng::Rng;
use kolibrie::sparql_database::SparqlDatabase;
use shared::dataset_index::{DatasetIndex, GraphId, Quad};
use shared::triple::Triple;
use std::collections::{BTreeSet, HashSet, VecDeque};

pub struct C04;

fn gid(g: u32) -> GraphId {
    if g == 0 {
        GraphId::Default
    } else {
        GraphId::Named(g - 1)
    }
}
fn gnum(g: GraphId) -> u32 {
    match g {
        GraphId::Default => 0,
        GraphId::Named(n) => n + 1,
    }
}
fn show_quads<I: IntoIterator<Item = (u32, u32, u32, u32)>>(it: I) -> String {
    let mut v: Vec<_> = it.into_iter().collect();
    v.sort();
    let parts: Vec<String> = v.iter().map(|(s, p, o, g)| format!("{}.{}.{}.{}", s, p, o, g)).collect();
    format!("[{}]", parts.join(";"))
}
fn qs(v: Vec<Quad>) -> String {
    show_quads(v.into_iter().map(|q| (q.subject, q.predicate, q.object, gnum(q.graph))))
}
fn ts(v: Vec<Triple>) -> String {
    show_quads(v.into_iter().map(|t| (t.subject, t.predicate, t.object, 0)))
}
fn show_nats(mut v: Vec<u32>) -> String {
    v.sort();
    format!("[{}]", v.iter().map(|x| x.to_string()).collect::<Vec<_>>().join("."))
}
fn parse_quad(s: &str) -> Option<Quad> {
    let v = nat_list(s, ',')?;
    if v.len() != 4 {
        return None;
    }
    Some(Quad { subject: v[0], predicate: v[1], object: v[2], graph: gid(v[3]) })
}
fn parse_pat(s: &str) -> Option<(Option<u32>, Option<u32>, Option<u32>)> {
    let v: Vec<&str> = s.split(',').collect();
    if v.len() != 3 {
        return None;
    }
    Some((opt_nat(v[0])?, opt_nat(v[1])?, opt_nat(v[2])?))
}
fn vis_set(v: &[u32]) -> HashSet<GraphId> {
    v.iter().map(|g| gid(*g)).collect()
}

fn full_obs(ix: &DatasetIndex, nt: u32, ng: u32) -> String {
    let mut choices: Vec<Option<u32>> = vec![None];
    choices.extend((0..nt).map(Some));
    let gs: Vec<u32> = (0..ng + 2).collect();
    let mut out: Vec<String> = Vec::new();
    let mut pats = Vec::new();
    for s in &choices {
        for p in &choices {
            for o in &choices {
                pats.push((*s, *p, *o));
            }
        }
    }
    for (s, p, o) in &pats {
        for g in &gs {
            out.push(qs(ix.query_graph(gid(*g), *s, *p, *o)));
        }
    }
    for (s, p, o) in &pats {
        out.push(qs(ix.query_named_graphs(*s, *p, *o, None)));
        out.push(qs(ix.query_named_graphs(*s, *p, *o, Some(&vis_set(&[1])))));
        out.push(qs(ix.query_named_graphs(*s, *p, *o, Some(&vis_set(&[2, ng + 1])))));
        out.push(qs(ix.query_quads(*s, *p, *o, None)));
        out.push(ts(ix.query_merged_graphs(&[gid(0), gid(1)], *s, *p, *o)));
        out.push(ts(ix.query_merged_graphs(&[gid(1), gid(2), gid(1)], *s, *p, *o)));
        out.push(ts(ix.query_merged_graphs(&[], *s, *p, *o)));
    }
    for s in 0..nt {
        for p in 0..nt {
            for o in 0..nt {
                let t = Triple { subject: s, predicate: p, object: o };
                out.push(show_nats(ix.graphs_for_triple(&t).into_iter().map(gnum).collect()));
            }
        }
    }
    for s in 0..nt {
        for p in 0..nt {
            for o in 0..nt {
                for g in &gs {
                    out.push(ix.contains_quad(&Quad { subject: s, predicate: p, object: o, graph: gid(*g) }).to_string());
                }
            }
        }
    }
    for g in &gs {
        out.push(ix.len_graph(gid(*g)).to_string());
    }
    out.push(show_nats(ix.graphs().into_iter().map(gnum).collect()));
    out.push(qs(ix.all_quads()));
    out.join("|")
}

fn b2s(b: bool) -> String {
    if b { "t".into() } else { "f".into() }
}

fn exec_builder(db: &SparqlDatabase, a: &str) -> Option<String> {
    // QueryBuilder over the default graph with exact constants: `_` unbound, `k` the term t<k>, `u` a constant the
    // dictionary has never seen (matches nothing)
    let v: Vec<&str> = a.split(',').collect();
    if v.len() != 3 {
        return None;
    }
    let name = |x: &str| -> Option<Option<String>> {
        match x {
            "_" => Some(None),
            "u" => Some(Some("never-encoded".to_string())),
            k => k.parse::<u32>().ok().map(|k| Some(format!("t{}", k))),
        }
    };
    let (sn, pn, on) = (name(v[0])?, name(v[1])?, name(v[2])?);
    let mut qb = kolibrie::query_builder::QueryBuilder::new(db);
    if let Some(x) = &sn {
        qb = qb.with_subject(x);
    }
    if let Some(x) = &pn {
        qb = qb.with_predicate(x);
    }
    if let Some(x) = &on {
        qb = qb.with_object(x);
    }
    Some(ts(qb.get_triples().into_iter().collect()))
}

fn exec_tok(db: &mut SparqlDatabase, nt: u32, ng: u32, t: &str) -> Option<String> {
    let parts: Vec<&str> = t.split(':').collect();
    if let ["B", a] = parts.as_slice() {
        return exec_builder(db, a);
    }
    let ix = &mut db.dataset_index;
    Some(match parts.as_slice() {
        ["i", q] => b2s(ix.insert_quad(&parse_quad(q)?)),
        ["d", q] => b2s(ix.delete_quad(&parse_quad(q)?)),
        ["c", g] => b2s(ix.create_graph(gid(g.parse().ok()?))),
        ["x", g] => {
            ix.clear_graph(gid(g.parse().ok()?));
            b2s(true)
        }
        ["r", g] => b2s(ix.drop_graph(gid(g.parse().ok()?))),
        ["A"] => {
            ix.clear();
            b2s(true)
        }
        ["R"] => {
            db.build_all_indexes();
            b2s(true)
        }
        ["Q", a] => {
            let v: Vec<&str> = a.split(',').collect();
            if v.len() != 4 {
                return None;
            }
            qs(ix.query_graph(gid(v[0].parse().ok()?), opt_nat(v[1])?, opt_nat(v[2])?, opt_nat(v[3])?))
        }
        ["N", a] => {
            let (s, p, o) = parse_pat(a)?;
            qs(ix.query_named_graphs(s, p, o, None))
        }
        ["N", a, vis] => {
            let (s, p, o) = parse_pat(a)?;
            let v = nat_list(vis, '.')?;
            qs(ix.query_named_graphs(s, p, o, Some(&vis_set(&v))))
        }
        ["U", a] => {
            let (s, p, o) = parse_pat(a)?;
            qs(ix.query_quads(s, p, o, None))
        }
        ["M", gs, a] => {
            let gs: Vec<GraphId> = nat_list(gs, '.')?.into_iter().map(gid).collect();
            let (s, p, o) = parse_pat(a)?;
            ts(ix.query_merged_graphs(&gs, s, p, o))
        }
        ["T", a] => {
            let v = nat_list(a, ',')?;
            if v.len() != 3 {
                return None;
            }
            show_nats(ix.graphs_for_triple(&Triple { subject: v[0], predicate: v[1], object: v[2] }).into_iter().map(gnum).collect())
        }
        ["G"] => show_nats(ix.graphs().into_iter().map(gnum).collect()),
        ["L", g] => ix.len_graph(gid(g.parse().ok()?)).to_string(),
        ["K", q] => ix.contains_quad(&parse_quad(q)?).to_string(),
        ["Z"] => qs(ix.all_quads()),
        ["O"] => fnv(&full_obs(ix, nt, ng)).to_string(),
        ["OV"] => full_obs(ix, nt, ng),
        _ => return None,
    })
}

// ---- generation -------------------------------------------------------------------------------

fn small_ops() -> Vec<String> {
    // universe: s,o ∈ {0,1}, p = 0, graphs 0,1,2
    let mut ops = Vec::new();
    for s in 0..2 {
        for o in 0..2 {
            for g in 0..3 {
                ops.push(format!("i:{},0,{},{}", s, o, g));
                ops.push(format!("d:{},0,{},{}", s, o, g));
            }
        }
    }
    for g in 1..3 {
        ops.push(format!("c:{}", g));
    }
    for g in 0..3 {
        ops.push(format!("x:{}", g));
        ops.push(format!("r:{}", g));
    }
    ops.push("A".into());
    ops.push("R".into());
    ops
}

/// abstract state used only to enumerate *distinct* situations (never to judge)
type AState = (BTreeSet<(u32, u32, u32, u32)>, BTreeSet<u32>);

fn abs_step(st: &AState, op: &str) -> AState {
    let (mut qs, mut gs) = st.clone();
    let parts: Vec<&str> = op.split(':').collect();
    let quad = |s: &str| {
        let v = nat_list(s, ',').unwrap();
        (v[0], v[1], v[2], v[3])
    };
    match parts.as_slice() {
        ["i", q] => {
            let q = quad(q);
            if q.3 != 0 {
                gs.insert(q.3);
            }
            qs.insert(q);
        }
        ["d", q] => {
            qs.remove(&quad(q));
        }
        ["c", g] => {
            gs.insert(g.parse().unwrap());
        }
        ["x", g] => {
            let g: u32 = g.parse().unwrap();
            qs.retain(|q| q.3 != g);
        }
        ["r", g] => {
            let g: u32 = g.parse().unwrap();
            if g == 0 || gs.contains(&g) {
                qs.retain(|q| q.3 != g);
                gs.remove(&g);
            }
        }
        ["A"] => {
            qs.clear();
            gs.clear();
        }
        _ => {}
    }
    (qs, gs)
}

impl Prop for C04 {
    fn id(&self) -> &'static str {
        "store"
    }
    fn cases(&self, tier: Tier) -> usize {
        match tier {
            Tier::Quick => 1500,
            Tier::Thorough => 20000,
        }
    }

    fn exhaustive(&self, tier: Tier, stats: &mut Stats) -> Vec<String> {
        let depth = if tier == Tier::Quick { 3 } else { 5 };
        let ops = small_ops();
        let mut seen: HashSet<AState> = HashSet::new();
        let mut queue: VecDeque<(AState, Vec<String>)> = VecDeque::new();
        let init: AState = (BTreeSet::new(), BTreeSet::new());
        seen.insert(init.clone());
        queue.push_back((init, vec![]));
        let mut out = Vec::new();
        while let Some((st, path)) = queue.pop_front() {
            for op in &ops {
                let mut p = path.clone();
                p.push(op.clone());
                out.push(format!("store 2 2 {} O", p.join(" ")));
                let nst = abs_step(&st, op);
                if p.len() < depth && seen.insert(nst.clone()) {
                    queue.push_back((nst, p));
                }
            }
        }
        stats.add("exhaustive_states", seen.len() as u64);
        out
    }

    fn gen(&self, rng: &mut Rng, tier: Tier, _i: usize, stats: &mut Stats) -> String {
        let nt = rng.range(2, 6) as u32;
        let many = rng.chance(1, 12);
        // catalogs beyond any small-catalog fast path (dozens of named graphs, most of them empty or nearly so)
        let ng = if many { stats.hit("many_named_graphs"); rng.range(33, 48) as u32 } else { rng.range(1, 3) as u32 };
        let maxlen = if tier == Tier::Quick { 60 } else { 400 };
        let len = rng.range(1, maxlen);
        let mut toks: Vec<String> = Vec::new();
        let term = |r: &mut Rng| r.below(nt as usize) as u32;
        // with many graphs half of the quads still go to the default graph (so that default and named data share terms)
        let graph = |r: &mut Rng| if many && r.chance(1, 2) { 0 } else { r.below(ng as usize + 1) as u32 };
        let opt = |r: &mut Rng| if r.chance(1, 2) { "_".to_string() } else { (r.below(nt as usize)).to_string() };
        if many {
            for g in 1..=ng {
                if rng.chance(9, 10) {
                    toks.push(format!("c:{}", g));
                }
            }
        }
        // a skewed universe makes repeated inserts/deletes of the same quad likely
        for _ in 0..len {
            let k = rng.below(100);
            let t = if k < 38 {
                stats.hit("op_ins");
                format!("i:{},{},{},{}", term(rng), term(rng), term(rng), graph(rng))
            } else if k < 58 {
                stats.hit("op_del");
                format!("d:{},{},{},{}", term(rng), term(rng), term(rng), graph(rng))
            } else if k < 63 {
                stats.hit("op_create");
                format!("c:{}", rng.below(ng as usize + 2))
            } else if k < 68 {
                stats.hit("op_clear");
                format!("x:{}", rng.below(ng as usize + 2))
            } else if k < 73 {
                stats.hit("op_drop");
                format!("r:{}", rng.below(ng as usize + 2))
            } else if k < 74 {
                stats.hit("op_clearall");
                "A".to_string()
            } else if k < 78 {
                stats.hit("op_rebuild");
                "R".to_string()
            } else {
                stats.hit("observer");
                match rng.below(10) {
                    9 => {
                        let mut o3 = |r: &mut Rng| if r.chance(1, 6) { "u".to_string() } else { opt(r) };
                        format!("B:{},{},{}", o3(rng), o3(rng), o3(rng))
                    }
                    0 => format!("Q:{},{},{},{}", rng.below(ng as usize + 2), opt(rng), opt(rng), opt(rng)),
                    1 => format!("N:{},{},{}", opt(rng), opt(rng), opt(rng)),
                    2 => {
                        let mut v = Vec::new();
                        for g in 1..=ng + 1 {
                            if rng.chance(1, 2) {
                                v.push(g.to_string());
                            }
                        }
                        if v.is_empty() {
                            format!("N:{},{},{}", opt(rng), opt(rng), opt(rng))
                        } else {
                            format!("N:{},{},{}:{}", opt(rng), opt(rng), opt(rng), v.join("."))
                        }
                    }
                    3 => format!("U:{},{},{}", opt(rng), opt(rng), opt(rng)),
                    4 => {
                        let n = rng.range(1, 3);
                        let v: Vec<String> = (0..n).map(|_| rng.below(ng as usize + 2).to_string()).collect();
                        format!("M:{}:{},{},{}", v.join("."), opt(rng), opt(rng), opt(rng))
                    }
                    5 => format!("T:{},{},{}", term(rng), term(rng), term(rng)),
                    6 => "G".to_string(),
                    7 => format!("L:{}", rng.below(ng as usize + 2)),
                    _ => format!("K:{},{},{},{}", term(rng), term(rng), term(rng), graph(rng)),
                }
            };
            toks.push(t);
        }
        toks.push("G".into());
        toks.push("Z".into());
        if nt <= 3 {
            toks.push("O".into());
            stats.hit("full_observation");
        }
        stats.add("ops_total", toks.len() as u64);
        format!("store {} {} {}", nt, ng, toks.join(" "))
    }

    fn exec(&self, req: &str) -> String {
        let toks: Vec<&str> = req.split_whitespace().collect();
        if toks.len() < 3 || toks[0] != "store" {
            return "bad-request".into();
        }
        let (nt, ng) = match (toks[1].parse::<u32>(), toks[2].parse::<u32>()) {
            (Ok(a), Ok(b)) => (a, b),
            _ => return "bad-request".into(),
        };
        let mut db = SparqlDatabase::new();
        // the string-level read path (QueryBuilder) needs names: term k is the string `t<k>`
        {
            let mut d = db.dictionary.write().unwrap();
            for k in 0..nt.max(ng + 2) {
                if d.encode(&format!("t{}", k)) != k {
                    return "machinery:dictionary-ids-not-dense".into();
                }
            }
        }
        let mut out = Vec::new();
        for t in &toks[3..] {
            match exec_tok(&mut db, nt, ng, t) {
                Some(s) => out.push(s),
                None => return "bad-request".into(),
            }
        }
        out.join(" ")
    }
}
