//! C16, scanner level — differential run of the hand-written byte-offset token scanners of
//! `kolibrie/src/parser.rs` against the byte-level model `lean/Kolibrie/Model/Scan.lean`.
//! Protocol documented in lean/Kolibrie/Driver/C16Scan.lean.
//!
//! request:  parse scan <which> <hexInput> <classes>
//!   which     ws | var | iri | bnode | pname | num | lit
//!   classes   `-` or `cp:flags,…` for the distinct non-ASCII chars of the input
//!             (flags: 1 = char::is_alphabetic, 2 = is_numeric, 4 = is_whitespace)
//! reply:    ok <consumed> <tokStart> <tokLen> | err <Kind> <off> <len> | panic
//!           (`ws`: ok <skipped> 0 0)
use crate::props::{Stats, Tier};
use crate::proto::*;
use crate::rng::Rng;
// The scanners are private in kolibrie::parser; hooks/C16_scanners.patch exposes them as `parser::verif` under
// `--cfg kolibrie_verif`. harness/build.rs sets `kverif_has_parser_verif` when the hook is present in the tree, so
// a tree without the hook still builds (every scan request then answers `hook-missing`, which fails C16 only).
#[cfg(kverif_has_parser_verif)]
use kolibrie::parser::verif;
use std::panic::{catch_unwind, AssertUnwindSafe};

pub const KINDS: [&str; 7] = ["ws", "var", "iri", "bnode", "pname", "num", "lit"];

/// the multi-byte characters swept over every offset
pub const MULTI: [char; 10] = [
    '\u{e9}',    // é  (2 bytes, alphabetic)
    '\u{df}',    // ß
    '\u{8a9e}',  // 語 (3 bytes)
    '\u{1f600}', // 😀 (4 bytes, not alphabetic, inside PN_CHARS_BASE range 10000..EFFFF)
    '\u{a0}',    // no-break space (whitespace)
    '\u{2028}',  // line separator (whitespace, 3 bytes)
    '\u{300}',   // combining grave (PN_CHARS only)
    '\u{b7}',    // middle dot (PN_CHARS only)
    '\u{660}',   // arabic-indic digit zero (numeric, not ASCII digit)
    '\u{203f}',  // undertie (PN_CHARS only)
];

fn pk<'a>(r: &mut Rng, xs: &[&'a str]) -> &'a str {
    xs[r.below(xs.len())]
}

fn off_of(input: &str, slice: &str) -> Option<(usize, usize)> {
    let base = input.as_ptr() as usize;
    let p = slice.as_ptr() as usize;
    if p >= base && p + slice.len() <= base + input.len() {
        Some((p - base, slice.len()))
    } else {
        None
    }
}

fn show(input: &str, r: nom::IResult<&str, &str>) -> String {
    match r {
        Ok((rest, tok)) => {
            let consumed = input.len() - rest.len();
            let (a, l) = off_of(input, tok).unwrap_or((input.len(), tok.len()));
            format!("ok {} {} {}", consumed, a, l)
        }
        Err(nom::Err::Error(e)) | Err(nom::Err::Failure(e)) => {
            // an error slice that does not point into the input is the static "" of sparql_skip_ws
            let (o, l) = off_of(input, e.input).unwrap_or((input.len(), 0));
            format!("err {:?} {} {}", e.code, o, l)
        }
        Err(nom::Err::Incomplete(_)) => "err Incomplete 0 0".to_string(),
    }
}

#[cfg(not(kverif_has_parser_verif))]
pub fn run_scanner(_which: &str, _input: &str) -> Option<String> {
    Some("hook-missing:apply-hooks/C16_scanners.patch".to_string())
}

#[cfg(kverif_has_parser_verif)]
pub fn run_scanner(which: &str, input: &str) -> Option<String> {
    let f: fn(&str) -> nom::IResult<&str, &str> = match which {
        "ws" => {
            let r = catch_unwind(AssertUnwindSafe(|| {
                let rest = verif::sparql_skip_ws(input);
                format!("ok {} 0 0", input.len() - rest.len())
            }));
            return Some(r.unwrap_or_else(|_| "panic".to_string()));
        }
        "var" => verif::sparql_variable,
        "iri" => verif::sparql_iri,
        "bnode" => verif::sparql_blank_node,
        "pname" => verif::sparql_prefixed_name,
        "num" => verif::sparql_numeric_literal,
        "lit" => verif::sparql_quoted_literal,
        _ => return None,
    };
    let r = catch_unwind(AssertUnwindSafe(|| show(input, f(input))));
    Some(r.unwrap_or_else(|_| "panic".to_string()))
}

/// toks = whole request split on ' ': ["parse", "scan", which, hex, classes]
pub fn exec_scan(toks: &[&str]) -> String {
    if toks.len() != 5 || toks[1] != "scan" {
        return "bad-request".into();
    }
    let input = match unhex(toks[3]) {
        Some(s) => s,
        None => return "bad-request".into(),
    };
    run_scanner(toks[2], &input).unwrap_or_else(|| "bad-request".into())
}

pub fn classes_of(input: &str) -> String {
    let mut cps: Vec<char> = input.chars().filter(|c| !c.is_ascii()).collect();
    cps.sort();
    cps.dedup();
    if cps.is_empty() {
        return "-".into();
    }
    cps.iter()
        .map(|c| {
            let f = (c.is_alphabetic() as u32) | ((c.is_numeric() as u32) << 1) | ((c.is_whitespace() as u32) << 2);
            format!("{}:{}", *c as u32, f)
        })
        .collect::<Vec<_>>()
        .join(",")
}

pub fn request(which: &str, input: &str) -> String {
    format!("parse scan {} {} {}", which, hex(input), classes_of(input))
}

// ---------------------------------------------------------------- valid tokens

const LETTERS: [&str; 14] = ["a", "b", "Z", "x1", "é", "ß", "語", "\u{1f600}", "_", "q", "\u{660}", "k9", "Ω", "\u{10400}"];
const PN_MID: [&str; 12] = ["a", "-", "0", "\u{b7}", "\u{300}", "\u{203f}", "é", "語", "_", "z", "7", "\u{2040}"];

fn ws_prefix(r: &mut Rng) -> String {
    let parts = [
        " ", "\t", "\n", "\r\n", "\u{a0}", "\u{2028}", "\u{85}", "\u{3000}", "# c\n", "#\n", "#é語\r", "  ", "#x # y\n\t",
    ];
    let mut s = String::new();
    for _ in 0..r.below(4) {
        s.push_str(pk(r, &parts));
    }
    s
}

fn gen_ws(r: &mut Rng) -> String {
    let mut s = ws_prefix(r);
    if s.is_empty() {
        s.push(' ');
    }
    match r.below(6) {
        0 => s.push_str("# no newline"),
        1 => s.push_str("#"),
        2 => s.push_str("#é\u{2028}x"),
        _ => {}
    }
    s
}

fn gen_var(r: &mut Rng) -> String {
    let mut s = String::from(if r.chance(3, 4) { "?" } else { "$" });
    for _ in 0..r.range(1, 4) {
        s.push_str(pk(r, &LETTERS));
    }
    s
}

fn gen_iri(r: &mut Rng) -> String {
    let parts = [
        "http://example.org/", "a", "#frag", "?q=1", "\\u00e9", "\\U0001F600", "\\u0041", "é", "語", "\u{1f600}", "/",
        "%20", "urn:x:", "\\uD7FF", "\\U0010FFFF", "~", "\u{a0}",
    ];
    let mut s = String::from("<");
    for _ in 0..r.below(5) {
        s.push_str(pk(r, &parts));
    }
    s.push('>');
    s
}

fn gen_bnode(r: &mut Rng) -> String {
    let mut s = String::from("_:");
    s.push_str(pk(r, &["b", "0", "_", "é", "語", "A", "\u{1f600}", "9"]));
    for _ in 0..r.below(5) {
        if r.chance(1, 4) {
            s.push('.');
        }
        s.push_str(pk(r, &PN_MID));
    }
    if r.chance(1, 6) {
        s.push('.');
    }
    s
}

fn gen_pname(r: &mut Rng) -> String {
    let mut s = String::new();
    if r.chance(4, 5) {
        s.push_str(pk(r, &["ex", "a", "é", "語", "xsd", "p", "\u{1f600}", "Ω"]));
        for _ in 0..r.below(3) {
            if r.chance(1, 4) {
                s.push('.');
            }
            s.push_str(pk(r, &PN_MID));
        }
    }
    s.push(':');
    let locals = [
        "a", "local", "0", "_", ":", "%41", "%fF", "\\.", "\\-", "\\%", "\\~", "\\#", "\\@", "é", "語", "-", "\u{b7}", "\u{300}",
        "\u{203f}", ".", "..", "x", "9", "\\_", "\\/", "\\?", "\\(", "\u{1f600}",
    ];
    for _ in 0..r.below(6) {
        s.push_str(pk(r, &locals));
    }
    s
}

fn gen_num(r: &mut Rng) -> String {
    let mut s = String::new();
    match r.below(4) {
        0 => s.push('+'),
        1 => s.push('-'),
        _ => {}
    }
    let int = r.chance(4, 5);
    if int {
        for _ in 0..r.range(1, 3) {
            s.push((b'0' + r.below(10) as u8) as char);
        }
    }
    if !int || r.chance(1, 2) {
        s.push('.');
        for _ in 0..r.range(if int { 0 } else { 1 }, 3) {
            s.push((b'0' + r.below(10) as u8) as char);
        }
    }
    if r.chance(1, 3) {
        s.push(*r.pick(&['e', 'E']));
        match r.below(3) {
            0 => s.push('+'),
            1 => s.push('-'),
            _ => {}
        }
        for _ in 0..r.below(3) {
            s.push((b'0' + r.below(10) as u8) as char);
        }
    }
    s
}

fn gen_lit(r: &mut Rng) -> String {
    let q = *r.pick(&['"', '\'']);
    let triple = r.chance(1, 3);
    let delim: String = std::iter::repeat(q).take(if triple { 3 } else { 1 }).collect();
    let other = if q == '"' { "'" } else { "\"" };
    let parts = [
        "a", "bc", " ", "\\t", "\\b", "\\n", "\\r", "\\f", "\\\"", "\\'", "\\\\", "\\u00e9", "\\U0001F600", "\\u0041", "é",
        "語", "\u{1f600}", "\u{a0}", "\u{2028}", "#", "@", "^^", "<", "\\uD7FF", "\\U0010FFFF", "\u{300}",
    ];
    let mut s = delim.clone();
    for _ in 0..r.below(6) {
        s.push_str(pk(r, &parts));
        if r.chance(1, 8) {
            s.push_str(other);
        }
        if triple && r.chance(1, 6) {
            s.push(q); // a lone quote inside a long string
            s.push('x');
        }
        if triple && r.chance(1, 8) {
            s.push('\n');
        }
    }
    s.push_str(&delim);
    match r.below(8) {
        0 => s.push_str("@en"),
        1 => s.push_str("@en-GB"),
        2 => s.push_str("@de-CH-1996-x1"),
        3 => {
            s.push_str("^^");
            s.push_str(&gen_iri(r));
        }
        4 => {
            s.push_str("^^");
            s.push_str(&gen_pname(r));
        }
        5 => {
            s.push_str("^^");
            s.push_str(&ws_prefix(r));
            s.push_str(if r.chance(1, 2) { "xsd:integer" } else { "<http://www.w3.org/2001/XMLSchema#integer>" });
        }
        _ => {}
    }
    s
}

pub fn gen_token(which: &str, r: &mut Rng) -> String {
    match which {
        "ws" => gen_ws(r),
        "var" => gen_var(r),
        "iri" => gen_iri(r),
        "bnode" => gen_bnode(r),
        "pname" => gen_pname(r),
        "num" => gen_num(r),
        _ => gen_lit(r),
    }
}

const TAILS: [&str; 22] = [
    "", "", " .", " ?x", ";", ")", "é", "\n", ".", ":x", "_", "a", " }", "\u{a0}", "語 x", "#c", "1", "-", "@", "^^", "\"", ". :a :b",
];

const SPECIALS: [char; 30] = [
    '\\', '%', '.', ':', '"', '\'', '<', '>', '#', '\n', '\r', '@', '^', '-', '_', '0', '9', 'u', 'U', 'e', 'E', '+', ' ', '?',
    '$', 'a', 'F', 'g', '{', '\t',
];

fn pick_char(r: &mut Rng) -> char {
    if r.chance(1, 2) {
        *r.pick(&MULTI)
    } else {
        *r.pick(&SPECIALS)
    }
}

fn mutate(r: &mut Rng, s: &str, stats: &mut Stats) -> String {
    let mut cs: Vec<char> = s.chars().collect();
    let n = r.range(1, 3);
    for _ in 0..n {
        let len = cs.len();
        match r.below(6) {
            0 | 1 => {
                let p = r.below(len + 1);
                cs.insert(p, *r.pick(&MULTI));
                stats.hit("scan_mut_insert_multibyte");
            }
            2 if len > 0 => {
                cs.remove(r.below(len));
                stats.hit("scan_mut_delete");
            }
            3 if len > 0 => {
                let p = r.below(len);
                let c = cs[p];
                cs.insert(p, c);
                stats.hit("scan_mut_duplicate");
            }
            4 if len > 0 => {
                cs.truncate(r.below(len));
                stats.hit("scan_mut_truncate");
            }
            _ if len > 0 => {
                let p = r.below(len);
                cs[p] = pick_char(r);
                stats.hit("scan_mut_replace");
            }
            _ => {
                cs.push(pick_char(r));
                stats.hit("scan_mut_replace");
            }
        }
    }
    cs.into_iter().collect()
}

fn record(which: &str, input: &str, stats: &mut Stats) {
    stats.hit(&format!("scan_{}", which));
    if !input.is_ascii() {
        stats.hit("scan_input_non_ascii");
    }
    if let Some(out) = run_scanner(which, input) {
        let mut it = out.split(' ');
        let head = it.next().unwrap_or("");
        match head {
            "ok" => stats.hit(&format!("scan_{}_ok", which)),
            "err" => stats.hit(&format!("scan_{}_err_{}", which, it.next().unwrap_or("?"))),
            _ => stats.hit(&format!("scan_{}_{}", which, head)),
        }
    }
}

/// one random request line `parse scan <which> <hex> <classes>`
pub fn gen_scan(r: &mut Rng, stats: &mut Stats) -> String {
    let which = *r.pick(&KINDS);
    // mostly a token of the scanner's own kind, sometimes one of another kind (error paths)
    let src = if which != "ws" && r.chance(1, 7) { *r.pick(&KINDS) } else { which };
    if src != which {
        stats.hit("scan_foreign_token");
    }
    let mut s = String::new();
    if which != "ws" && r.chance(1, 3) {
        s.push_str(&ws_prefix(r));
        stats.hit("scan_ws_prefix");
    }
    s.push_str(&gen_token(src, r));
    s.push_str(pk(r, &TAILS));
    let input = if r.chance(3, 5) {
        mutate(r, &s, stats)
    } else {
        stats.hit("scan_unmutated");
        s
    };
    record(which, &input, stats);
    request(which, &input)
}

/// hand-picked seeds per scanner (valid tokens exercising every branch), each followed by a tail
fn seeds(which: &str) -> Vec<&'static str> {
    match which {
        "ws" => vec![" \t\r\n#c\n ?x", "#é\n#x", "\u{a0}\u{2028}# no newline", "#\r\n \u{3000}a"],
        "var" => vec!["?x1 .", "$a_b)", " #c\n?é語1;"],
        "iri" => vec!["<http://e.org/a#b>.", "<a\\u00e9b\\U0001F600c> x", " <é/語>", "<a b>", "<unterminated"],
        "bnode" => vec!["_:b0.x. ", "_:a..b-c\u{b7}d;", " _:9é.", "_:.a"],
        "pname" => vec![
            "ex:a.b.c. ", "a.b-c:x%41y\\.z:w;", ":x", "é語:\u{300}a", "ex:\\~\\%41..", "ex: <a:b>", "x.:a", "a..b:c", "1a:b",
        ],
        "num" => vec!["+12.5e-3x", "-.5E+1 ", "1e+ ", "12.a", ".e1", "7_"],
        _ => vec![
            "\"a\\tb\\\"c\\u00e9\\U0001F600\"@en-GB-x1 .",
            "'''a'b''c\nd'''^^<http://x/\\u0041>;",
            "\"\"\"x\"\"y\"\"\"^^ ex:d.t.",
            "'é語'^^#c\n xsd:int ",
            "\"a\"@en_",
            "\"a\"^^1",
            "'a\nb'",
            "\"\\x\"",
        ],
    }
}

/// deterministic sweep: every seed unmodified, with every prefix (truncation at each char offset), and with each
/// multi-byte character of `MULTI` inserted at EVERY char offset in turn
pub fn exhaustive_scan(tier: Tier, stats: &mut Stats) -> Vec<String> {
    let mut out = Vec::new();
    let multi: &[char] = if tier == Tier::Quick { &MULTI[..] } else { &MULTI[..] };
    for which in KINDS {
        // every scanner also sees the seeds of the other kinds in the thorough tier
        let mut all: Vec<&'static str> = seeds(which);
        if tier == Tier::Thorough {
            for other in KINDS {
                if other != which {
                    all.extend(seeds(other));
                }
            }
        }
        for seed in all {
            let cs: Vec<char> = seed.chars().collect();
            let mut push = |s: String, stats: &mut Stats| {
                record(which, &s, stats);
                out.push(request(which, &s));
            };
            push(seed.to_string(), stats);
            for p in 0..cs.len() {
                push(cs[..p].iter().collect(), stats);
                stats.hit("scan_sweep_truncate");
            }
            for &m in multi {
                for p in 0..=cs.len() {
                    let mut v = cs.clone();
                    v.insert(p, m);
                    push(v.into_iter().collect(), stats);
                    stats.hit("scan_sweep_insert_multibyte");
                }
            }
        }
    }
    out
}
