//! C18 — backward chaining returns only entailed answers, and all shallow ones.
//! Protocol documented in lean/Kolibrie/Driver/C18.lean.
use super::{Prop, Stats, Tier};
use crate::rng::Rng;
use datalog::reasoning::backward_chaining::resolve_term;
use datalog::reasoning::Reasoner;
use shared::rule::Rule;
use shared::terms::Term;
use shared::triple::Triple;
use std::collections::BTreeSet;

pub struct C18;

type Pat = (Term, Term, Term);

fn parse_term(s: &str) -> Option<Term> {
    if let Some(v) = s.strip_prefix('?') {
        Some(Term::Variable(v.to_string()))
    } else {
        s.parse::<u32>().ok().map(Term::Constant)
    }
}
fn parse_pat(s: &str) -> Option<Pat> {
    let v: Vec<&str> = s.split('.').collect();
    if v.len() != 3 {
        return None;
    }
    Some((parse_term(v[0])?, parse_term(v[1])?, parse_term(v[2])?))
}
fn parse_pats(s: &str) -> Option<Vec<Pat>> {
    if s == "-" {
        return Some(vec![]);
    }
    s.split(',').map(parse_pat).collect()
}
fn parse_facts(s: &str) -> Option<Vec<Triple>> {
    if s == "-" {
        return Some(vec![]);
    }
    s.split(';')
        .map(|f| {
            let v: Vec<u32> = f.split('.').map(|x| x.parse::<u32>().ok()).collect::<Option<Vec<_>>>()?;
            if v.len() != 3 {
                return None;
            }
            Some(Triple { subject: v[0], predicate: v[1], object: v[2] })
        })
        .collect()
}
fn parse_rules(s: &str) -> Option<Vec<(Vec<Pat>, Vec<Pat>)>> {
    if s == "-" {
        return Some(vec![]);
    }
    s.split('/')
        .map(|r| {
            let v: Vec<&str> = r.split('>').collect();
            if v.len() != 2 {
                return None;
            }
            Some((parse_pats(v[0])?, parse_pats(v[1])?))
        })
        .collect()
}

fn goal_vars(g: &Pat) -> Vec<String> {
    let mut v: BTreeSet<String> = BTreeSet::new();
    for t in [&g.0, &g.1, &g.2] {
        if let Term::Variable(x) = t {
            v.insert(x.clone());
        }
    }
    v.into_iter().collect()
}

fn exec_inner(req: &str) -> Option<String> {
    let t: Vec<&str> = req.split(' ').collect();
    if t.len() != 4 || t[0] != "bc" {
        return None;
    }
    let facts = parse_facts(t[1])?;
    let rules = parse_rules(t[2])?;
    let goal = parse_pat(t[3])?;
    let mut r = Reasoner::new();
    for f in &facts {
        r.insert_ground_triple(f.clone());
    }
    for (p, c) in &rules {
        r.add_rule(Rule { premise: p.clone(), negative_premise: vec![], filters: vec![], conclusion: c.clone() });
    }
    let res = r.backward_chaining(&goal);
    let vars = goal_vars(&goal);
    let mut out: BTreeSet<String> = BTreeSet::new();
    for b in &res {
        let parts: Vec<String> = vars
            .iter()
            .map(|v| match resolve_term(&Term::Variable(v.clone()), b) {
                Term::Constant(c) => format!("{}={}", v, c),
                _ => format!("{}=_", v),
            })
            .collect();
        // the empty binding (an answer to a variable-free goal) is shown as `T`: "one answer" and "no answer" differ
        out.insert(if parts.is_empty() { "T".to_string() } else { parts.join(",") });
    }
    Some(format!("[{}]", out.into_iter().collect::<Vec<_>>().join(";")))
}

// ---- generation ------------------------------------------------------------------------------------------
fn show_term(t: &Term) -> String {
    match t {
        Term::Variable(v) => format!("?{}", v),
        Term::Constant(c) => c.to_string(),
        _ => "?".into(),
    }
}
fn show_pat(p: &Pat) -> String {
    format!("{}.{}.{}", show_term(&p.0), show_term(&p.1), show_term(&p.2))
}
fn var(s: &str) -> Term {
    Term::Variable(s.to_string())
}
fn cst(c: u32) -> Term {
    Term::Constant(c)
}

/// base predicates 5,6 (facts), derived predicates 7,8,9 (rule heads; 9 may be recursive)
fn gen_rules(rng: &mut Rng, names: &[&str; 3], nfacts: usize, stats: &mut Stats) -> Vec<(Vec<Pat>, Vec<Pat>)> {
    let (x, y, z) = (names[0], names[1], names[2]);
    let mut rules = Vec::new();
    let n = rng.range(1, 3);
    let mut recursive_used = false;
    for _ in 0..n {
        let k = rng.below(10);
        let r = match k {
            0 => {
                stats.hit("r_copy");
                (vec![(var(x), cst(5), var(y))], vec![(var(x), cst(7), var(y))])
            }
            1 => {
                stats.hit("r_inverse");
                (vec![(var(x), cst(*rng.pick(&[5, 6])), var(y))], vec![(var(y), cst(7), var(x))])
            }
            2 => {
                stats.hit("r_join2");
                (vec![(var(x), cst(5), var(y)), (var(y), cst(6), var(z))], vec![(var(x), cst(8), var(z))])
            }
            3 => {
                stats.hit("r_on_derived");
                (vec![(var(x), cst(7), var(y))], vec![(var(x), cst(8), var(y))])
            }
            4 => {
                stats.hit("r_const_in_head");
                (vec![(var(x), cst(6), var(y))], vec![(var(x), cst(7), cst(rng.range(1, 4) as u32))])
            }
            5 => {
                stats.hit("r_repeated_var");
                (vec![(var(x), cst(5), var(x))], vec![(var(x), cst(8), var(x))])
            }
            6 => {
                stats.hit("r_var_predicate");
                (vec![(var(x), var(y), var(z)), (var(z), cst(5), var(x))], vec![(var(x), cst(8), var(y))])
            }
            7 => {
                stats.hit("r_two_heads");
                (vec![(var(x), cst(5), var(y))], vec![(var(x), cst(7), var(y)), (var(y), cst(8), var(x))])
            }
            8 if !recursive_used => {
                recursive_used = true;
                stats.hit("r_linear_recursion");
                rules.push((vec![(var(x), cst(5), var(y))], vec![(var(x), cst(9), var(y))]));
                (vec![(var(x), cst(5), var(y)), (var(y), cst(9), var(z))], vec![(var(x), cst(9), var(z))])
            }
            9 if !recursive_used => {
                recursive_used = true;
                stats.hit("r_const_premise");
                (vec![(var(x), cst(5), cst(rng.range(1, 4) as u32)), (var(x), cst(6), var(y))], vec![(var(y), cst(9), var(x))])
            }
            // NOTE: the doubly recursive closure rule `x q y, y q z => x q z` is deliberately not generated: with three
            // facts the real search (MAX_DEPTH 10, no tabling) runs for minutes and exhausts memory.
            _ => {
                stats.hit("r_three_premises");
                (vec![(var(x), cst(5), var(y)), (var(y), cst(5), var(z)), (var(z), cst(6), var(x))], vec![(var(x), cst(7), var(z))])
            }
        };
        rules.push(r);
    }
    rules
}

fn gen_goal(rng: &mut Rng, stats: &mut Stats) -> Pat {
    // variable naming schemes: ordinary, the engine's own generated names, the rules' own names
    let schemes: [(&str, [&str; 3]); 7] = [
        ("n_XYZ", ["X", "Y", "Z"]),
        ("n_v0v1v2", ["v0", "v1", "v2"]),
        ("n_v1v0v3", ["v1", "v0", "v3"]),
        ("n_v2v5v1", ["v2", "v5", "v1"]),
        ("n_xyz", ["x", "y", "z"]),
        ("n_yxz", ["y", "x", "z"]),
        ("n_v10v00", ["v10", "v00", "v"]),
    ];
    let (tag, ns) = *rng.pick(&schemes);
    stats.hit(tag);
    let pred = cst(*rng.pick(&[5, 6, 7, 8, 9]));
    let ent = |r: &mut Rng| cst(r.range(1, 4) as u32);
    match rng.below(8) {
        0 | 1 | 2 => {
            stats.hit("g_s_pred_o");
            (var(ns[0]), pred, var(ns[1]))
        }
        3 => {
            stats.hit("g_same_var");
            (var(ns[0]), pred, var(ns[0]))
        }
        4 => {
            stats.hit("g_const_subject");
            (ent(rng), pred, var(ns[1]))
        }
        5 => {
            stats.hit("g_const_object");
            (var(ns[0]), pred, ent(rng))
        }
        6 => {
            stats.hit("g_var_predicate");
            (var(ns[0]), var(ns[2]), var(ns[1]))
        }
        _ => {
            stats.hit("g_ground");
            (ent(rng), pred, ent(rng))
        }
    }
}

fn line(facts: &[(u32, u32, u32)], rules: &[(Vec<Pat>, Vec<Pat>)], goal: &Pat) -> String {
    let f = if facts.is_empty() { "-".to_string() } else { facts.iter().map(|(s, p, o)| format!("{}.{}.{}", s, p, o)).collect::<Vec<_>>().join(";") };
    let pats = |v: &Vec<Pat>| if v.is_empty() { "-".to_string() } else { v.iter().map(show_pat).collect::<Vec<_>>().join(",") };
    let r = if rules.is_empty() { "-".to_string() } else { rules.iter().map(|(p, q)| format!("{}>{}", pats(p), pats(q))).collect::<Vec<_>>().join("/") };
    format!("bc {} {} {}", f, r, show_pat(goal))
}

impl Prop for C18 {
    fn id(&self) -> &'static str {
        "bc"
    }
    fn cases(&self, tier: Tier) -> usize {
        match tier {
            Tier::Quick => 5000,
            Tier::Thorough => 30000,
        }
    }

    /// one fixed program (copy + linear recursion over a 3-chain) against every goal shape over a small
    /// vocabulary of variable names and constants
    fn exhaustive(&self, _tier: Tier, stats: &mut Stats) -> Vec<String> {
        let facts = vec![(1, 5, 2), (2, 5, 3), (3, 5, 1), (2, 6, 2)];
        let rules = vec![
            (vec![(var("x"), cst(5), var("y"))], vec![(var("x"), cst(9), var("y"))]),
            (vec![(var("x"), cst(5), var("y")), (var("y"), cst(9), var("z"))], vec![(var("x"), cst(9), var("z"))]),
            (vec![(var("v0"), cst(6), var("v1"))], vec![(var("v1"), cst(7), var("v0"))]),
        ];
        let terms: Vec<Term> = vec![var("X"), var("v0"), var("v1"), var("v2"), var("x"), cst(1), cst(2)];
        let preds: Vec<Term> = vec![cst(9), cst(7), var("v1"), var("P")];
        let mut out = Vec::new();
        for s in &terms {
            for p in &preds {
                for o in &terms {
                    out.push(line(&facts, &rules, &(s.clone(), p.clone(), o.clone())));
                    stats.hit("exhaustive_goal");
                }
            }
        }
        out
    }

    fn gen(&self, rng: &mut Rng, _tier: Tier, _i: usize, stats: &mut Stats) -> String {
        let ne = rng.range(2, 4) as u32;
        let nf = rng.range(0, 6);
        let mut facts: Vec<(u32, u32, u32)> = Vec::new();
        for _ in 0..nf {
            let f = (rng.range(1, ne as usize) as u32, *rng.pick(&[5, 5, 6]), rng.range(1, ne as usize) as u32);
            if !facts.contains(&f) {
                facts.push(f);
            }
        }
        if rng.chance(1, 4) {
            // identifiers far apart (a dictionary of millions of terms): entities e and e + 2^21 / 2^22 / 2^31 - 1 are
            // different terms, whatever a compact encoding of a triple makes of them
            stats.hit("wide_identifiers");
            for f in facts.iter_mut() {
                if rng.chance(1, 2) {
                    f.2 += *rng.pick(&[1u32 << 21, 1 << 22, 3 << 21, (1 << 31) - 8]);
                }
                if rng.chance(1, 4) {
                    f.0 += *rng.pick(&[1u32 << 21, 1 << 22]);
                }
            }
        }
        let rule_names: [[&str; 3]; 4] = [["x", "y", "z"], ["v0", "v1", "v2"], ["X", "Y", "Z"], ["v1", "v0", "x"]];
        let names = rng.pick(&rule_names);
        let rules = gen_rules(rng, names, facts.len(), stats);
        let mut goal = gen_goal(rng, stats);
        if !facts.is_empty() && rng.chance(1, 6) {
            // a closed goal that is a near miss of a stored fact (one component differs by little, or by exactly a power of
            // two): it must not be answered from the fact
            stats.hit("g_near_miss_of_a_fact");
            let f = *rng.pick(&facts);
            let low = |x: u32| x & ((1 << 21) - 1);
            let g = match rng.below(4) {
                0 => (f.0, f.1 + 1, low(f.2)),
                1 => (low(f.0), f.1, low(f.2)),
                2 => (f.0, f.1, f.2 ^ 1),
                _ => (f.0, f.1 + (f.2 >> 21), low(f.2)),
            };
            goal = (cst(g.0), cst(g.1), cst(g.2));
        }
        stats.hit(&format!("facts_{}", facts.len()));
        stats.hit(&format!("rules_{}", rules.len()));
        line(&facts, &rules, &goal)
    }

    fn exec(&self, req: &str) -> String {
        exec_inner(req).unwrap_or_else(|| "bad-request".to_string())
    }
}
