//! C17 — query entry points cannot modify data; string entry points fail cleanly.
//! Protocol documented in lean/Kolibrie/Driver/C17.lean.
//!
//! request:  entry <E> <state> <ik> <pkS> <pkA> <elenS> <elenA> <hex text>
//!   E      q  = execute_sparql_query            hq = handle_http_request POST application/sparql-query
//!          u  = SparqlDatabase::execute_update  hu = SparqlDatabase::handle_update (strict, then legacy aliases)
//!   state  0 empty | 1 populated (default graph, two named graphs, one empty named graph)
//!          2 = 1 + MODEL / NEURAL RELATION registered (not trained) | 3 = 1 + trained neural relation ex:isFraud
//!   ik     what the generator intended: sel | upd | alias | ext | bad | unk
//!   pkS/pkA  parser oracle: result kind of parse_combined_query(_with_options(.., true)): sel | upd | ext | err | panic | _
//!   elenS/elenA  parser oracle: byte length of the error's remaining input (`_` when not an error)
//! reply:    <outcome> ds=<same|changed|*> [lc=<line>:<col>]
use super::{Prop, Stats, Tier};
use crate::proto::*;
use crate::rng::Rng;
use kolibrie::parser::parse_combined_query_with_options;
use kolibrie::sparql_database::SparqlDatabase;
use shared::dataset_index::GraphId;
use shared::query::SparqlOperation;
use std::panic::{catch_unwind, AssertUnwindSafe};
use std::sync::atomic::{AtomicU64, Ordering};

pub struct C17;

const EX: &str = "http://example.org/";
static TMP_COUNTER: AtomicU64 = AtomicU64::new(0);

fn tmp_model_path() -> String {
    let n = TMP_COUNTER.fetch_add(1, Ordering::Relaxed);
    let mut p = std::env::temp_dir();
    p.push(format!("kverif_c17_{}_{}.bin", std::process::id(), n));
    p.to_string_lossy().into_owned()
}

const NEURAL_DECLS: &str = r#"PREFIX ex: <http://example.org/>
MODEL "fraud_model" {
    ARCH MLP { HIDDEN [4] }
    OUTPUT BINARY { true }
}
NEURAL RELATION ex:isFraud USING MODEL "fraud_model" {
    INPUT {
        ?sample ex:x0 ?x0 .
        ?sample ex:x1 ?x1 .
    }
    FEATURES { ?x0, ?x1 }
}
"#;

fn train_text(path: &str) -> String {
    format!(
        r#"{}TRAIN NEURAL RELATION ex:isFraud {{
    DATA {{ ?sample ex:gold ?label . }}
    LABEL ?label
    TARGET {{ ?sample ex:isFraud true }}
    LOSS binary_cross_entropy
    OPTIMIZER adam
    LEARNING_RATE 0.1
    EPOCHS 60
    BATCH_SIZE 2
    SAVE_TO "{}"
}}
"#,
        NEURAL_DECLS, path
    )
}

/// database state `k`; the second component is a temp file to delete afterwards
fn build_state(k: u32) -> (SparqlDatabase, Option<String>) {
    let mut db = SparqlDatabase::new();
    let mut tmp = None;
    if k >= 1 {
        for (s, l, f) in [("t0", "1", [1.0, 1.0]), ("t1", "1", [1.0, 1.0]), ("t2", "0", [0.0, 0.0]), ("t3", "0", [0.0, 0.0])] {
            let s = format!("{}{}", EX, s);
            db.add_triple_parts(&s, &format!("{}x0", EX), &f[0].to_string());
            db.add_triple_parts(&s, &format!("{}x1", EX), &f[1].to_string());
            db.add_triple_parts(&s, &format!("{}gold", EX), l);
        }
        db.add_triple_parts(&format!("{}a", EX), &format!("{}p", EX), &format!("{}b", EX));
        db.add_triple_parts(&format!("{}a", EX), &format!("{}q", EX), "caf\u{e9} \u{8a9e}");
        db.add_quad_parts(&format!("{}a", EX), &format!("{}p", EX), &format!("{}c", EX), &format!("{}g1", EX));
        db.add_quad_parts(&format!("{}b", EX), &format!("{}p", EX), &format!("{}c", EX), &format!("{}g2", EX));
        let g3 = db.dictionary.write().unwrap().encode(&format!("{}g3", EX));
        db.dataset_index.create_graph(GraphId::Named(g3));
    }
    if k == 2 {
        let _ = kolibrie::execute_query::execute_sparql_query(NEURAL_DECLS, &mut db);
    }
    if k == 3 {
        // registered *and trained* through the query-only entry point itself
        let path = tmp_model_path();
        let r = kolibrie::execute_query::execute_sparql_query(&train_text(&path), &mut db);
        if r.is_err() {
            panic!("state 3 could not be trained: {:?}", r);
        }
        tmp = Some(path);
    }
    (db, tmp)
}

fn snapshot(db: &SparqlDatabase) -> (Vec<String>, Vec<String>) {
    let mut quads: Vec<String> = db
        .dataset_index
        .all_quads()
        .into_iter()
        .map(|q| {
            let g = match q.graph {
                GraphId::Default => "-".to_string(),
                GraphId::Named(g) => db.decode_any(g).unwrap_or_else(|| format!("#{}", g)),
            };
            format!(
                "{}|{}|{}|{}",
                db.decode_any(q.subject).unwrap_or_else(|| format!("#{}", q.subject)),
                db.decode_any(q.predicate).unwrap_or_else(|| format!("#{}", q.predicate)),
                db.decode_any(q.object).unwrap_or_else(|| format!("#{}", q.object)),
                g
            )
        })
        .collect();
    quads.sort();
    let mut graphs: Vec<String> = db
        .dataset_index
        .named_graphs()
        .into_iter()
        .map(|g| match g {
            GraphId::Default => "-".to_string(),
            GraphId::Named(g) => db.decode_any(g).unwrap_or_else(|| format!("#{}", g)),
        })
        .collect();
    graphs.sort();
    (quads, graphs)
}

/// parser oracle: (kind, remaining length of the error input)
fn parse_kind(text: &str, aliases: bool) -> (String, String) {
    let r = catch_unwind(AssertUnwindSafe(|| match parse_combined_query_with_options(text, aliases) {
        Ok((_, c)) => match c.sparql {
            Some(SparqlOperation::Select(_)) => ("sel".to_string(), "_".to_string()),
            Some(SparqlOperation::Update(_)) => ("upd".to_string(), "_".to_string()),
            None => ("ext".to_string(), "_".to_string()),
        },
        Err(nom::Err::Error(e)) | Err(nom::Err::Failure(e)) => ("err".to_string(), e.input.len().to_string()),
        Err(nom::Err::Incomplete(_)) => ("err".to_string(), "_".to_string()),
    }));
    r.unwrap_or(("panic".to_string(), "_".to_string()))
}

fn strip_ansi(s: &str) -> String {
    let mut out = String::new();
    let mut it = s.chars().peekable();
    while let Some(c) = it.next() {
        if c == '\u{1b}' {
            if it.peek() == Some(&'[') {
                it.next();
                while let Some(d) = it.next() {
                    if d.is_ascii_alphabetic() {
                        break;
                    }
                }
            }
        } else {
            out.push(c);
        }
    }
    out
}

fn line_col(msg: &str) -> Option<String> {
    let plain = strip_ansi(msg);
    let i = plain.find("query:")?;
    let rest = &plain[i + 6..];
    let mut parts = rest.split(|c: char| !(c.is_ascii_digit() || c == ':'));
    let lc = parts.next()?;
    let mut it = lc.split(':');
    let l = it.next()?.parse::<usize>().ok()?;
    let c = it.next()?.parse::<usize>().ok()?;
    Some(format!("{}:{}", l, c))
}

fn classify_err(msg: &str) -> &'static str {
    if msg == "expected a SPARQL query, found an Update operation" {
        "refused"
    } else if msg == "expected a SPARQL Update operation, found SELECT" || msg == "expected a SPARQL Update operation" {
        "not-update"
    } else if msg.starts_with('\n') || msg.starts_with("unexpected trailing SPARQL input") {
        "parse-error"
    } else {
        "exec-error"
    }
}

fn http_post_query(body: &str) -> String {
    format!("POST /sparql HTTP/1.1\r\nHost: localhost\r\nContent-Type: application/sparql-query\r\n\r\n{}", body)
}

/// run one entry point; returns (outcome, optional rendered error)
fn run_entry(entry: &str, db: &mut SparqlDatabase, text: &str, pk_s: &str) -> (String, Option<String>) {
    match entry {
        "q" => match kolibrie::execute_query::execute_sparql_query(text, db) {
            Ok(_) => (if pk_s == "ext" { "ext-ok" } else { "select" }.to_string(), None),
            Err(e) => match classify_err(&e) {
                "exec-error" => (if pk_s == "ext" { "ext-error" } else { "select" }.to_string(), None),
                k => (k.to_string(), Some(e)),
            },
        },
        "hq" => {
            let reply = db.handle_http_request(&http_post_query(text));
            match reply.strip_prefix("Query Failed: ") {
                Some(e) => match classify_err(e) {
                    "exec-error" => (if pk_s == "ext" { "ext-error" } else { "select" }.to_string(), None),
                    k => (k.to_string(), Some(e.to_string())),
                },
                None => {
                    if reply == "Bad Request" {
                        ("bad-http".to_string(), None)
                    } else {
                        (if pk_s == "ext" { "ext-ok" } else { "select" }.to_string(), None)
                    }
                }
            }
        }
        "u" => match db.execute_update(text) {
            Ok(_) => ("update".to_string(), None),
            Err(e) => match classify_err(&e) {
                "exec-error" => ("update".to_string(), None),
                k => (k.to_string(), Some(e)),
            },
        },
        "hu" => {
            let reply = db.handle_update(text);
            if reply.starts_with("Update Successful (") {
                ("update".to_string(), None)
            } else if reply == "Update Successful" {
                ("update-alias".to_string(), None)
            } else if reply == "Update Failed" {
                ("failed".to_string(), None)
            } else {
                (format!("other:{}", hex(&reply)), None)
            }
        }
        _ => ("bad-request".to_string(), None),
    }
}

fn exec_inner(toks: &[&str]) -> String {
    if toks.len() != 9 {
        return "bad-request".into();
    }
    let entry = toks[1];
    let state: u32 = match toks[2].parse() {
        Ok(s) if s <= 3 => s,
        _ => return "bad-request".into(),
    };
    let text = match unhex(toks[8]) {
        Some(t) => t,
        None => return "bad-request".into(),
    };
    let (mut db, tmp) = build_state(state);
    let before = snapshot(&db);
    let res = catch_unwind(AssertUnwindSafe(|| run_entry(entry, &mut db, &text, toks[4])));
    if let Some(p) = tmp {
        let _ = std::fs::remove_file(p);
    }
    // a TRAIN request under test names its own artifact (only files this harness created are removed)
    if let Some(i) = text.find("SAVE_TO \"") {
        if let Some(j) = text[i + 9..].find('"') {
            let path = &text[i + 9..i + 9 + j];
            if path.contains("kverif_c17_") {
                let _ = std::fs::remove_file(path);
            }
        }
    }
    let (outcome, rendered) = match res {
        Ok(r) => r,
        Err(e) => {
            let msg = if let Some(s) = e.downcast_ref::<&str>() {
                s.to_string()
            } else if let Some(s) = e.downcast_ref::<String>() {
                s.clone()
            } else {
                "?".to_string()
            };
            (format!("panic:{}", msg.replace(['\n', ' ', '|'], "_").chars().take(90).collect::<String>()), None)
        }
    };
    let after = snapshot(&db);
    let ds = if outcome == "update" || outcome == "update-alias" {
        "*"
    } else if before == after {
        "same"
    } else {
        "changed"
    };
    let mut out = format!("{} ds={}", outcome, ds);
    // the rendered position is compared only when the request carries the parser's error length; at end of
    // input (length 0) the renderer places the marker by its own rules (end of the previous line)
    let elen = if entry == "hu" { "_" } else { toks[6] };
    if outcome == "parse-error" && elen != "_" && elen != "0" {
        if let Some(lc) = rendered.as_deref().and_then(line_col) {
            out.push_str(&format!(" lc={}", lc));
        } else {
            out.push_str(" lc=?");
        }
    }
    out
}

// ------------------------------------------------------------------------------------------------ generation

const UNI: &[&str] = &["\u{e9}", "\u{8a9e}", "\u{1f600}", "\u{a0}", "\u{2028}", "\u{df}", "\u{3b1}\u{3b2}", "\u{660}"];

fn iri(r: &mut Rng) -> String {
    let names = ["a", "b", "c", "p", "q", "x0", "x1", "gold", "g1", "g2", "g3", "new"];
    if r.chance(1, 2) {
        format!("<{}{}>", EX, r.pick(&names))
    } else {
        format!("ex:{}", r.pick(&names))
    }
}
fn var(r: &mut Rng) -> String {
    format!("?{}", r.pick(&["s", "p", "o", "x", "y", "g", "sample"]))
}
fn obj(r: &mut Rng) -> String {
    match r.below(5) {
        0 => format!("\"{}\"", r.pick(&["v", "caf\u{e9}", "\u{8a9e}", "1", "a b"])),
        1 => r.below(100).to_string(),
        _ => iri(r),
    }
}
fn tp(r: &mut Rng, vars: bool) -> String {
    let s = if vars && r.chance(2, 3) { var(r) } else { iri(r) };
    let p = if vars && r.chance(1, 4) { var(r) } else { iri(r) };
    let o = if vars && r.chance(2, 3) { var(r) } else { obj(r) };
    format!("{} {} {}", s, p, o)
}
fn ws(r: &mut Rng) -> &'static str {
    *r.pick(&[" ", " ", "\n", "\t", "  ", " # c\n", "\r\n"])
}
fn kw(r: &mut Rng, k: &str) -> String {
    match r.below(4) {
        0 => k.to_lowercase(),
        1 => {
            let mut s = String::new();
            for (i, c) in k.chars().enumerate() {
                if i % 2 == 0 { s.push(c.to_ascii_lowercase()) } else { s.push(c) }
            }
            s
        }
        _ => k.to_string(),
    }
}
fn prologue(r: &mut Rng) -> String {
    format!("{} ex: <{}>{}", kw(r, "PREFIX"), EX, ws(r))
}
fn group(r: &mut Rng, depth: usize) -> String {
    let n = r.range(1, 3);
    let mut s = String::from("{");
    for _ in 0..n {
        s.push_str(ws(r));
        match r.below(if depth == 0 { 4 } else { 8 }) {
            4 => s.push_str(&format!("{} {} {}", kw(r, "GRAPH"), if r.chance(1, 2) { var(r) } else { iri(r) }, group(r, depth - 1))),
            5 => s.push_str(&format!("{} {} {}", group(r, depth - 1), kw(r, "UNION"), group(r, depth - 1))),
            6 => s.push_str(&format!("{}({} {} {})", kw(r, "FILTER"), var(r), r.pick(&["=", "!=", "<", ">"]), obj(r))),
            7 => s.push_str(&format!("{{ {} {} {} {} }}", kw(r, "SELECT"), var(r), kw(r, "WHERE"), group(r, depth - 1))),
            _ => {
                s.push_str(&tp(r, true));
                if r.chance(1, 2) {
                    s.push_str(" .");
                }
            }
        }
    }
    s.push_str(ws(r));
    s.push('}');
    s
}
fn select(r: &mut Rng) -> String {
    let mut s = prologue(r);
    s.push_str(&kw(r, "SELECT"));
    s.push_str(ws(r));
    if r.chance(1, 5) {
        s.push_str(&kw(r, "DISTINCT"));
        s.push(' ');
    }
    if r.chance(1, 3) {
        s.push('*');
    } else {
        for _ in 0..r.range(1, 3) {
            s.push_str(&var(r));
            s.push(' ');
        }
    }
    s.push_str(ws(r));
    let mut with_dataset = false;
    if r.chance(1, 3) {
        // dataset clauses: stored graphs, the empty stored graph, and graphs the store has never heard of (a query may
        // name them; it must not create them)
        with_dataset = true;
        for _ in 0..r.range(1, 3) {
            let g = *r.pick(&["g1", "g2", "g3", "g-unknown", "g-unknown2"]);
            if r.chance(1, 2) {
                s.push_str(&format!("{} <{}{}> ", kw(r, "FROM"), EX, g));
            } else {
                s.push_str(&format!("{} {} <{}{}> ", kw(r, "FROM"), kw(r, "NAMED"), EX, g));
            }
        }
    }
    if with_dataset || r.chance(4, 5) {
        s.push_str(&kw(r, "WHERE"));
        s.push_str(ws(r));
    }
    s.push_str(&group(r, 2));
    if r.chance(1, 4) {
        s.push_str(&format!(" {} {} {}", kw(r, "ORDER"), kw(r, "BY"), var(r)));
    }
    if r.chance(1, 4) {
        s.push_str(&format!(" {} {}", kw(r, "LIMIT"), r.below(5)));
    }
    s
}
fn quad_block(r: &mut Rng, vars: bool) -> String {
    let mut s = String::from("{ ");
    for _ in 0..r.range(1, 3) {
        if r.chance(1, 4) {
            s.push_str(&format!("{} {} {{ {} }} ", kw(r, "GRAPH"), iri(r), tp(r, vars)));
        } else {
            s.push_str(&tp(r, vars));
            s.push_str(" . ");
        }
    }
    s.push('}');
    s
}
/// the six standard update forms (0..5) and the two legacy aliases (6, 7)
fn update(r: &mut Rng, form: usize) -> String {
    let mut s = prologue(r);
    let w = ws(r);
    match form {
        0 => s.push_str(&format!("{}{}{} {}", kw(r, "INSERT"), w, kw(r, "DATA"), quad_block(r, false))),
        1 => s.push_str(&format!("{}{}{} {}", kw(r, "DELETE"), w, kw(r, "DATA"), quad_block(r, false))),
        2 => s.push_str(&format!("{} {}{}{} {}", kw(r, "INSERT"), quad_block(r, true), w, kw(r, "WHERE"), group(r, 1))),
        3 => s.push_str(&format!("{} {}{}{} {}", kw(r, "DELETE"), quad_block(r, true), w, kw(r, "WHERE"), group(r, 1))),
        4 => s.push_str(&format!(
            "{} {}{}{} {} {} {}",
            kw(r, "DELETE"),
            quad_block(r, true),
            w,
            kw(r, "INSERT"),
            quad_block(r, true),
            kw(r, "WHERE"),
            group(r, 1)
        )),
        5 => s.push_str(&format!("{}{}{} {}", kw(r, "DELETE"), w, kw(r, "WHERE"), quad_block(r, true))),
        6 => s.push_str(&format!("{} {}", kw(r, "INSERT"), quad_block(r, false))),
        _ => s.push_str(&format!("{} {}", kw(r, "DELETE"), quad_block(r, false))),
    }
    s
}
fn extension(r: &mut Rng) -> String {
    match r.below(4) {
        0 => NEURAL_DECLS.to_string(),
        1 => format!(
            "PREFIX ex: <{}>\nRULE :R{} :- CONSTRUCT {{ ?s ex:derived ?o . }} WHERE {{ ?s ex:p ?o . }}",
            EX,
            r.below(9)
        ),
        2 => format!(
            "REGISTER RSTREAM <http://out/stream> AS SELECT * FROM NAMED WINDOW :w ON :s [RANGE {} STEP 2] WHERE {{ WINDOW :w {{ ?s ?p ?o }} }}",
            r.range(2, 9)
        ),
        _ => format!("PREFIX ex: <{}>\nMODEL \"m{}\" {{ ARCH MLP {{ HIDDEN [4, 2] }} OUTPUT EXCLUSIVE {{ \"A\", \"B\" }} }}", EX, r.below(5)),
    }
}
fn garbage(r: &mut Rng) -> String {
    let pieces = [
        "SELECT", "WHERE", "{", "}", "?x", "<http://e/", ">", "\"", "'", "INSERT", "DATA", "DELETE", ".", ";", ",", "(", ")", "FILTER", "ex:", ":", "_:b", "\\u00e9", "\\", "%4", "1.5e",
        "#", "\n", "GRAPH", "UNION", "<<", ">>", "ML.PREDICT(", "MODEL \"", "RULE", "PREFIX", "@en", "^^", "*", "!", "&&", "||",
    ];
    let mut s = String::new();
    for _ in 0..r.range(1, 14) {
        if r.chance(1, 4) {
            s.push_str(*r.pick(UNI));
        } else {
            s.push_str(*r.pick(&pieces));
        }
        if r.chance(2, 3) {
            s.push(' ');
        }
    }
    s
}
/// byte-level mutation of a valid request that keeps it valid UTF-8 (requests are `&str` at every entry point)
fn mutate(r: &mut Rng, base: &str) -> String {
    let chars: Vec<char> = base.chars().collect();
    let mut out: Vec<char> = chars.clone();
    for _ in 0..r.range(1, 3) {
        if out.is_empty() {
            break;
        }
        let i = r.below(out.len() + 1);
        match r.below(6) {
            0 => {
                if i < out.len() {
                    out.remove(i);
                }
            }
            1 => {
                for c in r.pick(UNI).chars().rev() {
                    out.insert(i.min(out.len()), c);
                }
            }
            2 => {
                let c = *r.pick(&['{', '}', '"', '<', '>', '.', '?', '\\', '#', '(', ')', ':', '\'', ';']);
                out.insert(i.min(out.len()), c);
            }
            3 => out.truncate(i),
            4 => {
                if i < out.len() {
                    out[i] = r.pick(UNI).chars().next().unwrap();
                }
            }
            _ => {
                let j = r.below(out.len() + 1);
                let (a, b) = (i.min(j), i.max(j));
                let seg: Vec<char> = out[a..b.min(out.len())].to_vec();
                for (k, c) in seg.into_iter().enumerate() {
                    out.insert(a + k, c);
                }
            }
        }
    }
    // trailing multi-byte text after a complete request is the documented witness shape
    if r.chance(1, 5) {
        out.push(' ');
        out.extend(r.pick(UNI).chars());
    }
    out.into_iter().collect()
}

fn make_request(entry: &str, state: u32, ik: &str, text: &str, oracle: bool) -> String {
    let (pk_s, el_s, pk_a, el_a) = if oracle {
        let (a, b) = parse_kind(text, false);
        let (c, d) = parse_kind(text, true);
        (a, b, c, d)
    } else {
        ("_".to_string(), "_".to_string(), "_".to_string(), "_".to_string())
    };
    format!("entry {} {} {} {} {} {} {} {}", entry, state, ik, pk_s, pk_a, el_s, el_a, hex(text))
}

const ENTRIES: &[&str] = &["q", "hq", "u", "hu"];

impl Prop for C17 {
    fn id(&self) -> &'static str {
        "entry"
    }
    fn cases(&self, tier: Tier) -> usize {
        match tier {
            Tier::Quick => 1600,
            Tier::Thorough => 120000,
        }
    }
    fn exhaustive(&self, tier: Tier, stats: &mut Stats) -> Vec<String> {
        // every request kind x every entry x states 0..2 once, plus the trained-relation state at the query entries
        let mut out = Vec::new();
        let mut r = Rng::new(17);
        let reps = if tier == Tier::Quick { 1 } else { 4 };
        for _ in 0..reps {
            for e in ENTRIES {
                for st in 0..3u32 {
                    out.push(make_request(e, st, "sel", &select(&mut r), true));
                    for f in 0..6 {
                        out.push(make_request(e, st, "upd", &update(&mut r, f), true));
                    }
                    for f in 6..8 {
                        out.push(make_request(e, st, "alias", &update(&mut r, f), true));
                    }
                    out.push(make_request(e, st, "ext", &extension(&mut r), true));
                    out.push(make_request(e, st, "bad", &garbage(&mut r), true));
                }
            }
        }
        let hit = format!("PREFIX ex: <{}> SELECT ?s WHERE {{ ?s ex:isFraud ?o }}", EX);
        let miss = format!("PREFIX ex: <{}> SELECT ?s WHERE {{ ?s ex:gold ?o }}", EX);
        for e in ["q", "hq"] {
            out.push(make_request(e, 3, "sel", &hit, true));
            out.push(make_request(e, 3, "sel", &miss, true));
            out.push(make_request(e, 2, "sel", &hit, true));
        }
        // top-level ML.PREDICT at the query entry (parsed, must not materialise anything), also with a trained relation
        let predict = format!(
            "PREFIX ex: <{}>\nML.PREDICT(MODEL \"fraud_model\", INPUT {{ SELECT ?sample ?x0 ?x1 WHERE {{ ?sample ex:x0 ?x0 . ?sample ex:x1 ?x1 }} }}, OUTPUT ?l)",
            EX
        );
        for e in ["q", "hq", "u", "hu"] {
            for st in [1u32, 2, 3] {
                out.push(make_request(e, st, "ext", &predict, true));
            }
        }
        // MODEL + NEURAL RELATION + TRAIN submitted to the query entry: training may run, stored quads must not change
        let mut probe = std::env::temp_dir();
        probe.push("kverif_c17_train_probe.bin");
        for e in ["q", "hq"] {
            out.push(make_request(e, 1, "ext", &train_text(&probe.to_string_lossy()), true));
        }
        stats.add("exhaustive_kinds_x_entries_x_states", out.len() as u64);
        // malformed requests that reach the different diagnostics of the error formatter, with one multi-byte character
        // inserted at EVERY character position in turn (whatever the formatter slices or counts, it must stay on char
        // boundaries and return an error, not crash)
        let bases = [
            "SELECT ?s { ?s ?p ?o",
            "SELECT ?s WHERE { ?s <urn:p> ?o ",
            "SELECT ?s WHERE { ?s <urn:p> \"abc }",
            "SELECT ?s WHERE { ?s zz:p ?o zz:q }",
            "SELECT ?s WHERE { ?s <urn:p> ?oo ?ww }",
            "SELECT ?s WHERE { ?s <urn:p> ?o } LIMIT ?x",
            "SELECT ?s WHERE { ?s <urn:p> ?o } ORDER BY junk more_junk",
            "INSERT DATA { <urn:a> <urn:b> }",
            "DELETE WHERE { ?s ?p }",
            "PREFIX ex: <urn:e> SELECT ?s WHERE { ?s ex:p ?o ?q_1 }",
        ];
        let inserts: &[&str] = if tier == Tier::Quick { &["\u{e9}", "\u{1F600}"] } else { &["\u{e9}", "\u{20ac}", "\u{1F600}", "\u{e9}\u{e9}"] };
        let n0 = out.len();
        for b in bases {
            let chars: Vec<char> = b.chars().collect();
            for ins in inserts {
                for pos in 0..=chars.len() {
                    let mut t: String = chars[..pos].iter().collect();
                    t.push_str(ins);
                    t.extend(chars[pos..].iter());
                    let e = if (pos + ins.len()) % 2 == 0 { "q" } else { "u" };
                    out.push(make_request(e, 0, "unk", &t, true));
                }
            }
        }
        stats.add("diagnostic_multibyte_sweep", (out.len() - n0) as u64);
        // every recursive construct nested far beyond any sane depth, through the string entry points: an error, not a
        // crash (a stack overflow kills the process; the check then executes the requests with crash isolation)
        let n1 = out.len();
        for depth in [200usize, 6000, 200_000] {
            let texts = [
                format!("SELECT * WHERE {{ ?s ?p ?o FILTER({}(?o > 1)) }}", "!".repeat(depth)),
                format!("SELECT * WHERE {{ ?s ?p ?o FILTER({}?o > 1{}) }}", "(".repeat(depth), ")".repeat(depth)),
                format!("SELECT * WHERE {}{}", "{".repeat(depth), "}".repeat(depth)),
                format!("DELETE {{ ?s ?p ?o }} WHERE {{ ?s ?p ?o FILTER({}(?o > 1)) }}", "!".repeat(depth)),
                format!("INSERT {{ ?s ?p ?o }} WHERE {}{}", "{".repeat(depth), "}".repeat(depth)),
            ];
            for t in texts {
                for e in ["q", "u", "hq", "hu"] {
                    // expected without consulting the parser (which is what may crash): a parse error
                    out.push(format!("entry {} 1 unk err err _ _ {}", e, hex(&t)));
                }
            }
        }
        stats.add("deep_nesting_through_entry_points", (out.len() - n1) as u64);
        out
    }
    fn gen(&self, r: &mut Rng, _tier: Tier, i: usize, stats: &mut Stats) -> String {
        let entry = *r.pick(ENTRIES);
        let state = r.below(3) as u32;
        stats.hit(&format!("entry_{}", entry));
        stats.hit(&format!("state_{}", state));
        let (ik, text) = match i % 10 {
            0 | 1 => ("sel", select(r)),
            2 | 3 => {
                let f = r.below(6);
                stats.hit(&format!("update_form_{}", f));
                ("upd", update(r, f))
            }
            4 => {
                let f = 6 + r.below(2);
                ("alias", update(r, f))
            }
            5 => ("ext", extension(r)),
            6 => ("unk", garbage(r)),
            _ => {
                let base = match r.below(4) {
                    0 => {
                        let f = r.below(8);
                        update(r, f)
                    }
                    1 => extension(r),
                    _ => select(r),
                };
                ("unk", mutate(r, &base))
            }
        };
        stats.hit(&format!("intended_{}", ik));
        if !text.is_ascii() {
            stats.hit("text_multibyte");
        }
        let req = make_request(entry, state, ik, &text, true);
        let toks: Vec<&str> = req.split(' ').collect();
        stats.hit(&format!("parsed_strict_{}", toks[4]));
        req
    }
    fn exec(&self, req: &str) -> String {
        let toks: Vec<&str> = req.split(' ').collect();
        exec_inner(&toks)
    }
}
