//! C12 — incremental cross-window reasoning equals recomputation from scratch.
//! Protocol documented in lean/Kolibrie/Driver/C12.lean.
use super::{Prop, Stats, Tier};
use crate::rng::Rng;
use datalog::cross_window_sds::{all_component_iris, strip_window_prefix, Sds, WindowData, WindowedTriple};
use datalog::reasoning::materialisation::cross_window_incremental::{incremental_sds_plus, SdsWithExpiry};
use datalog::reasoning::materialisation::cross_window_naive::naive_sds_plus;
use shared::dictionary::Dictionary;
use shared::rule::Rule;
use shared::terms::Term;
use std::collections::{BTreeMap, BTreeSet};
use std::sync::{Arc, RwLock};

pub struct C12;

fn parse_term(s: &str, dict: &Arc<RwLock<Dictionary>>) -> Option<Term> {
    if s.len() > 1 && s.starts_with('v') {
        Some(Term::Variable(s[1..].to_string()))
    } else if s.len() > 1 && s.starts_with('p') {
        Some(Term::Constant(dict.write().unwrap().encode(&s[1..])))
    } else {
        let n: u32 = s.parse().ok()?;
        Some(Term::Constant(dict.write().unwrap().encode(&format!("n{}", n))))
    }
}
fn parse_pats(s: &str, dict: &Arc<RwLock<Dictionary>>) -> Option<Vec<(Term, Term, Term)>> {
    if s.is_empty() {
        return Some(vec![]);
    }
    s.split(',')
        .map(|p| {
            let v: Vec<&str> = p.split('.').collect();
            if v.len() != 3 {
                return None;
            }
            Some((parse_term(v[0], dict)?, parse_term(v[1], dict)?, parse_term(v[2], dict)?))
        })
        .collect()
}
fn parse_rule(s: &str, dict: &Arc<RwLock<Dictionary>>) -> Option<Rule> {
    let (body, head) = s.split_once('>')?;
    let (pr, ng) = body.split_once('~')?;
    Some(Rule { premise: parse_pats(pr, dict)?, negative_premise: parse_pats(ng, dict)?, filters: vec![], conclusion: parse_pats(head, dict)? })
}

fn ent(dict: &Dictionary, id: u32) -> String {
    match dict.decode(id) {
        Some(s) if s.starts_with('n') => s[1..].to_string(),
        Some(s) => format!("?{}", s),
        None => "?".into(),
    }
}
fn show_exp(e: u64) -> String {
    if e == u64::MAX {
        "inf".into()
    } else {
        e.to_string()
    }
}
fn join(mut v: Vec<String>) -> String {
    v.sort();
    v.dedup();
    if v.is_empty() {
        "-".into()
    } else {
        v.join(",")
    }
}

// ---------------------------------------------------------------------------------------------- generator helpers
#[derive(Clone)]
struct Ev {
    w: usize,
    s: usize,
    l: &'static str,
    o: usize,
    t: u64,
}

impl Prop for C12 {
    fn id(&self) -> &'static str {
        "xwin"
    }
    fn cases(&self, tier: Tier) -> usize {
        match tier {
            Tier::Quick => 2000,
            Tier::Thorough => 8000,
        }
    }

    fn gen(&self, rng: &mut Rng, tier: Tier, _i: usize, stats: &mut Stats) -> String {
        let ambiguous = rng.chance(1, 20);
        let unannotated = !ambiguous && rng.chance(1, 12);
        let inconsistent = !ambiguous && !unannotated && rng.chance(1, 10);
        let wnames: Vec<&str> = if ambiguous { vec!["w/", "w/x", "wc/"] } else { vec!["wa/", "wb/", "wc/"] };
        let nw = rng.range(2, 3);
        let alphas: Vec<u64> = (0..nw).map(|_| rng.range(2, 9) as u64).collect();
        let locals: [&'static str; 3] = if ambiguous { ["xp", "p", "q"] } else { ["p", "q", "p"] };
        let ne = rng.range(2, 4);
        let mut items: Vec<String> = Vec::new();
        for w in 0..nw {
            items.push(format!("W:{}:{}", wnames[w], alphas[w]));
        }
        items.push("O:out/".to_string());
        let has_static = rng.chance(1, 2);
        if has_static {
            let n = rng.range(0, 3);
            let mut ts: BTreeSet<String> = BTreeSet::new();
            for _ in 0..n {
                ts.insert(format!("{}.{}.{}", rng.below(ne), if rng.chance(1, 2) { "loc" } else { "typ" }, rng.below(ne)));
            }
            let v: Vec<String> = ts.into_iter().collect();
            items.push(format!("G:g/:{}", if v.is_empty() { "-".to_string() } else { v.join(",") }));
            stats.hit("static_graph");
        }
        // ---- rules
        let wp = |w: usize, l: &str| format!("p{}{}", wnames[w % nw], l);
        let mut rules: Vec<String> = Vec::new();
        let chains = !ambiguous && rng.chance(1, 4);
        if chains {
            // derivations of different lengths reaching the same fact, and facts derived from it: within one evaluation
            // a fact's expiry may improve several times and every improvement has to reach its consequences
            stats.hit("chain_program");
            let mut outs = vec!["r", "s", "t", "h", "d"];
            rng.shuffle(&mut outs);
            rules.push(format!("vx.{}.vy~>vx.pout/{}.vy", wp(0, locals[0]), outs[0]));
            rules.push(format!("vx.{}.vy~>vx.pout/{}.vy", wp(1, locals[1]), outs[1]));
            rules.push(format!("vx.pout/{}.vy~>vx.pout/{}.vy", outs[1], outs[2]));
            rules.push(format!("vx.pout/{}.vy~>vx.pout/{}.vy", outs[2], outs[0]));
            rules.push(format!("vx.pout/{}.vy~>vx.pout/{}.vy", outs[0], outs[3]));
            if rng.chance(1, 2) {
                rules.push(format!("vx.pout/{}.vy,vy.pout/{}.vz~>vx.pout/{}.vz", outs[3], outs[0], outs[4]));
            }
            if rng.chance(1, 3) {
                let k = rng.below(rules.len());
                rules.remove(k);
            }
            rng.shuffle(&mut rules);
        }
        let nr = if chains { rng.range(0, 2) } else { rng.range(1, 4) };
        for _ in 0..nr {
            let k = rng.below(13);
            stats.hit(&format!("rule_shape_{}", k));
            let r = match k {
                0 => format!("vx.{}.vy,vy.{}.vz~>vx.pout/r.vz", wp(0, locals[0]), wp(1, locals[1])),
                1 => format!("vx.pout/r.vy,vy.{}.vz~>vx.pout/s.vz", wp(2, locals[2])),
                2 => "vx.pout/r.vy,vy.pout/r.vz~>vx.pout/r.vz".to_string(),
                3 => format!("vx.{}.vy~>vx.{}.vy", wp(0, locals[0]), wp(1, locals[1])),
                4 => format!("vx.pg/loc.vy,vx.{}.vz~>vy.pout/h.vz", wp(0, locals[0])),
                5 => format!("vx.{}.vy~>vy.{}.vx", wp(0, locals[0]), wp(0, locals[0])),
                6 => format!("vx.{}.vy,vx.{}.vy~>vx.pout/both.vy", wp(0, locals[0]), wp(1, locals[1])),
                7 => format!("vx.{}.vy~>vx.pout/r.vy", wp(rng.below(nw), locals[rng.below(2)])),
                9 => "vx.pout/r.vy~>vx.pout/s.vy".to_string(),
                10 => "vx.pout/s.vy~>vx.pout/t.vy".to_string(),
                11 => "vx.pout/t.vy~>vx.pout/r.vy".to_string(),
                12 => "vx.pout/r.vy~>vx.pout/h.vy".to_string(),
                _ => format!("vx.{}.vy,vy.{}.vz~>vx.{}.vz", wp(0, locals[0]), wp(0, locals[0]), wp(0, locals[0])),
            };
            rules.push(r);
        }
        if unannotated {
            rules.push(format!("vx.{}.vy~>vx.ptmp.vy", wp(0, locals[0])));
            rules.push(format!("vx.ptmp.vy,vy.{}.vz~>vx.pout/r.vz", wp(1, locals[1])));
            stats.hit("stream_unannotated_head");
        }
        for r in &rules {
            items.push(format!("R:{}", r));
        }
        // ---- underlying stream and evaluation times
        let horizon = if tier == Tier::Quick { rng.range(8, 18) } else { rng.range(8, 30) } as u64;
        let mut evs: Vec<Ev> = Vec::new();
        let density = rng.range(1, 3);
        for t in 0..horizon {
            for w in 0..nw {
                if rng.chance(density, 4) {
                    let l = if rng.chance(3, 4) { locals[w] } else { locals[(w + 1) % 3] };
                    evs.push(Ev { w, s: rng.below(ne), l, o: rng.below(ne), t });
                }
            }
        }
        let nsteps = rng.range(2, if tier == Tier::Quick { 5 } else { 9 });
        let mut times: BTreeSet<u64> = BTreeSet::new();
        for _ in 0..nsteps {
            times.insert(rng.range(1, (horizon + 10) as usize) as u64);
        }
        stats.hit(&format!("steps_{}", times.len()));
        let mut renewed = false;
        let bad_step = rng.below(times.len());
        for (k, now) in times.iter().enumerate() {
            let mut parts: Vec<String> = Vec::new();
            for w in 0..nw {
                // each triple once, with its latest arrival time <= now, while alive
                let mut latest: BTreeMap<(usize, &str, usize), (u64, u64)> = BTreeMap::new(); // -> (latest, earliest)
                for e in evs.iter().filter(|e| e.w == w && e.t <= *now) {
                    let ent = latest.entry((e.s, e.l, e.o)).or_insert((e.t, e.t));
                    if e.t > ent.0 {
                        ent.0 = e.t;
                        renewed = true;
                    }
                }
                let mut listed: Vec<String> = Vec::new();
                for ((s, l, o), (lt, et)) in latest.iter() {
                    if lt + alphas[w] > *now {
                        let mut t_used = *lt;
                        if inconsistent && k == bad_step {
                            match rng.below(3) {
                                0 => continue,           // dropped although alive
                                1 => t_used = *et,       // stale arrival time
                                _ => listed.push(format!("{}.{}.{}.{}", s, l, o, et)), // listed twice
                            }
                        }
                        listed.push(format!("{}.{}.{}.{}", s, l, o, t_used));
                    }
                }
                if !listed.is_empty() {
                    parts.push(format!("{}={}", wnames[w], listed.join(",")));
                }
            }
            items.push(format!("S:{}:{}", now, if parts.is_empty() { "-".to_string() } else { parts.join(";") }));
        }
        if renewed {
            stats.hit("history_with_renewal");
        }
        stats.hit(if ambiguous {
            "stream_ambiguous_iris"
        } else if inconsistent {
            "stream_not_window_consistent"
        } else if unannotated {
            "stream_unannotated"
        } else {
            "stream_window_consistent"
        });
        format!("xwin {}", items.join(" "))
    }

    fn exec(&self, req: &str) -> String {
        let toks: Vec<&str> = req.split_whitespace().collect();
        if toks.is_empty() || toks[0] != "xwin" {
            return "bad-request".into();
        }
        let dict = Arc::new(RwLock::new(Dictionary::new()));
        let mut wins: Vec<(String, u64)> = Vec::new();
        let mut statics: Vec<(String, Vec<(String, String, String)>)> = Vec::new();
        let mut outs: Vec<String> = Vec::new();
        let mut rules: Vec<Rule> = Vec::new();
        let mut steps: Vec<(u64, Vec<(String, Vec<WindowedTriple>)>)> = Vec::new();
        for t in &toks[1..] {
            let parts: Vec<&str> = t.split(':').collect();
            match parts.as_slice() {
                ["W", iri, a] => match a.parse::<u64>() {
                    Ok(a) => wins.push((iri.to_string(), a)),
                    _ => return "bad-request".into(),
                },
                ["G", iri, ts] => {
                    let mut v = Vec::new();
                    if *ts != "-" {
                        for x in ts.split(',') {
                            let f: Vec<&str> = x.split('.').collect();
                            if f.len() != 3 || f[0].parse::<u32>().is_err() || f[2].parse::<u32>().is_err() {
                                return "bad-request".into();
                            }
                            v.push((format!("n{}", f[0]), f[1].to_string(), format!("n{}", f[2])));
                        }
                    }
                    statics.push((iri.to_string(), v));
                }
                ["O", iri] => outs.push(iri.to_string()),
                ["R", r] => match parse_rule(r, &dict) {
                    Some(ru) if ru.negative_premise.is_empty() => rules.push(ru),
                    _ => return "bad-request".into(),
                },
                ["S", now, c] => {
                    let now: u64 = match now.parse() {
                        Ok(x) => x,
                        _ => return "bad-request".into(),
                    };
                    let mut content = Vec::new();
                    if *c != "-" {
                        for part in c.split(';') {
                            let (iri, ts) = match part.split_once('=') {
                                Some(x) => x,
                                None => return "bad-request".into(),
                            };
                            let mut v = Vec::new();
                            for x in ts.split(',') {
                                let f: Vec<&str> = x.split('.').collect();
                                if f.len() != 4 {
                                    return "bad-request".into();
                                }
                                let (s, o, tt) = match (f[0].parse::<u32>(), f[2].parse::<u32>(), f[3].parse::<u64>()) {
                                    (Ok(a), Ok(b), Ok(c)) => (a, b, c),
                                    _ => return "bad-request".into(),
                                };
                                v.push(WindowedTriple { subject: format!("n{}", s), predicate: f[1].to_string(), object: format!("n{}", o), event_time: tt });
                            }
                            content.push((iri.to_string(), v));
                        }
                    }
                    steps.push((now, content));
                }
                _ => return "bad-request".into(),
            }
        }
        let mut state: SdsWithExpiry = SdsWithExpiry::new();
        let mut out: Vec<String> = Vec::new();
        for (now, content) in steps {
            let mut sds = Sds::new();
            for (iri, a) in &wins {
                let mut triples = Vec::new();
                for (ci, ts) in &content {
                    if ci == iri {
                        triples.extend(ts.iter().cloned());
                    }
                }
                sds.windows.insert(iri.clone(), WindowData { alpha: *a, triples });
            }
            for (iri, ts) in &statics {
                sds.static_graphs.insert(iri.clone(), ts.clone());
            }
            for o in &outs {
                sds.output_iris.insert(o.clone());
            }
            if content.iter().any(|(ci, _)| !wins.iter().any(|(w, _)| w == ci)) {
                return "bad-request".into();
            }
            let comps = all_component_iris(&sds);
            state = incremental_sds_plus(&rules, &sds, &state, &dict, now);
            let mut inc_entries: Vec<String> = Vec::new();
            {
                let d = dict.read().unwrap();
                for (comp, m) in &state {
                    for (t, e) in m {
                        let ps = match d.decode(t.predicate) {
                            Some(s) => s.to_string(),
                            None => continue,
                        };
                        // component = the key the implementation filed the fact under
                        let loc = match strip_window_prefix(&ps, &comps) {
                            Some((_, loc)) => loc.to_string(),
                            None => format!("?{}", ps),
                        };
                        inc_entries.push(format!("{}~{}~{}~{}@{}", comp, ent(&d, t.subject), loc, ent(&d, t.object), show_exp(*e)));
                    }
                }
            }
            let naive = naive_sds_plus(&rules, &sds, &dict, now);
            let mut nv_entries: Vec<String> = Vec::new();
            {
                let d = dict.read().unwrap();
                for (comp, ts) in &naive {
                    for t in ts {
                        let loc = d.decode(t.predicate).unwrap_or("?").to_string();
                        nv_entries.push(format!("{}~{}~{}~{}", comp, ent(&d, t.subject), loc, ent(&d, t.object)));
                    }
                }
            }
            out.push(format!("I={}", join(inc_entries)));
            out.push(format!("N={}", join(nv_entries)));
        }
        out.join(" ")
    }
}
