//! C08 — hybrid probability results never certify a wrong decision.
//! Protocol documented in lean/Kolibrie/Driver/C08.lean.
use super::{Prop, Stats, Tier};
use crate::rng::Rng;
use shared::hybrid::{
    evaluate_hybrid_with_clock, evaluate_topk, AlertDecision, HybridClock, HybridConfig, HybridProbabilityResult,
    LineageId, LineageNode, LineageStore, SeedId, SeedRegistry, SeedSnapshot, ThresholdPolicyKind,
};
use shared::seed_spec::{ExclusiveChoice, SeedSpec};
use shared::triple::Triple;
use std::collections::{BTreeMap, HashMap};
use std::sync::atomic::{AtomicUsize, Ordering};
use std::sync::{Arc, Mutex};
use std::time::{Duration, Instant};

pub struct C08;

// ---- injected clock ---------------------------------------------------------------------------------

#[derive(Clone, Copy)]
enum Script {
    Never,
    /// readings before the j-th return t0, all later ones t0 + d
    Jump(usize, u64),
    /// readings before the j-th return t0, the (j+n)-th returns t0 + (n+1)·d
    Ramp(usize, u64),
}

struct ScriptClock {
    base: Instant,
    count: AtomicUsize,
    script: Script,
}
impl ScriptClock {
    fn new(base: Instant, script: Script) -> Self {
        ScriptClock { base, count: AtomicUsize::new(0), script }
    }
    fn readings(&self) -> usize {
        self.count.load(Ordering::SeqCst)
    }
}
impl HybridClock for ScriptClock {
    fn now(&self) -> Instant {
        let i = self.count.fetch_add(1, Ordering::SeqCst);
        let micros = match self.script {
            Script::Never => 0,
            Script::Jump(j, d) => {
                if i < j {
                    0
                } else {
                    d
                }
            }
            Script::Ramp(j, d) => {
                if i < j {
                    0
                } else {
                    (i - j + 1) as u64 * d
                }
            }
        };
        self.base + Duration::from_micros(micros)
    }
}

// ---- request parsing --------------------------------------------------------------------------------

#[derive(Clone)]
struct SeedTok {
    id: u32,
    num: u64,
    den: u64,
    grp: Option<u32>,
}

fn parse_seeds(s: &str) -> Option<Vec<SeedTok>> {
    if s == "-" {
        return Some(vec![]);
    }
    s.split(',')
        .map(|t| {
            let p: Vec<&str> = t.split(':').collect();
            if p.len() != 4 {
                return None;
            }
            Some(SeedTok {
                id: p[0].parse().ok()?,
                num: p[1].parse().ok()?,
                den: p[2].parse().ok()?,
                grp: if p[3] == "i" { None } else { Some(p[3].parse().ok()?) },
            })
        })
        .collect()
}

fn triple_for(id: u32) -> Triple {
    Triple { subject: id, predicate: 10, object: 20 }
}

fn snapshot(seeds: &[SeedTok]) -> Result<SeedSnapshot, String> {
    let mut specs: Vec<SeedSpec> = Vec::new();
    let mut groups: BTreeMap<u32, Vec<ExclusiveChoice>> = BTreeMap::new();
    for s in seeds {
        let prob = s.num as f64 / s.den as f64;
        match s.grp {
            None => specs.push(SeedSpec::Independent { triple: triple_for(s.id), prob, seed_id: s.id }),
            Some(g) => groups.entry(g).or_default().push(ExclusiveChoice { triple: triple_for(s.id), prob, choice_id: s.id }),
        }
    }
    for (g, choices) in groups {
        specs.push(SeedSpec::ExclusiveGroup { group_id: g, choices });
    }
    SeedSnapshot::from_seed_specs(&specs).map_err(|e| format!("seed-error:{:?}", e))
}

/// `SeedId` has no public constructor: ids are handed out by a registry, sequentially from 0
fn seed_ids(max: u32) -> Vec<SeedId> {
    let mut reg = SeedRegistry::new();
    (0..=max).map(|i| reg.register_static(Triple { subject: i, predicate: 0, object: 0 }, 0.5).unwrap()).collect()
}

struct Built {
    store: LineageStore,
    root: LineageId,
    known: HashMap<u32, LineageId>,
}

fn parse_ref(s: &str, ids: &[LineageId]) -> Option<LineageId> {
    match s {
        "F" => Some(LineageId::FALSE),
        "T" => Some(LineageId::TRUE),
        _ => ids.get(s.parse::<usize>().ok()?).copied(),
    }
}

fn build(ops: &str, root: &str) -> Option<Built> {
    let mut store = LineageStore::new();
    let mut ids: Vec<LineageId> = Vec::new();
    let mut max_seed = 0u32;
    let toks: Vec<&str> = if ops == "-" { vec![] } else { ops.split(',').collect() };
    for t in &toks {
        if let Some(r) = t.strip_prefix('l') {
            max_seed = max_seed.max(r.parse().ok()?);
        }
    }
    let sids = seed_ids(max_seed);
    for t in &toks {
        let (k, r) = t.split_at(1);
        let refs = |r: &str, ids: &[LineageId]| -> Option<Vec<LineageId>> {
            if r.is_empty() {
                Some(vec![])
            } else {
                r.split('.').map(|x| parse_ref(x, ids)).collect()
            }
        };
        let id = match k {
            "l" => store.literal(sids[r.parse::<usize>().ok()?]),
            "n" => {
                let x = parse_ref(r, &ids)?;
                store.not(x)
            }
            "a" => {
                let xs = refs(r, &ids)?;
                store.and(xs)
            }
            "o" => {
                let xs = refs(r, &ids)?;
                store.or(xs)
            }
            _ => return None,
        };
        ids.push(id);
    }
    let root = parse_ref(root, &ids)?;
    let mut known: HashMap<u32, LineageId> = HashMap::new();
    known.insert(0, LineageId::FALSE);
    known.insert(1, LineageId::TRUE);
    for id in &ids {
        known.insert(id.get(), *id);
    }
    Some(Built { store, root, known })
}

fn fnv(s: &str) -> u64 {
    crate::proto::fnv(s)
}

fn show_meta(b: &Built, seeds: &SeedSnapshot) -> String {
    let mut parts: Vec<String> = Vec::new();
    for i in 0..b.store.len() as u32 {
        let id = match b.known.get(&i) {
            Some(id) => *id,
            None => {
                parts.push("?".into());
                continue;
            }
        };
        let join = |v: &Vec<LineageId>| v.iter().map(|c| c.get().to_string()).collect::<Vec<_>>().join(".");
        parts.push(match b.store.node(id) {
            LineageNode::False => "F".into(),
            LineageNode::True => "T".into(),
            LineageNode::Literal(s) => format!("l{}", s.get()),
            LineageNode::And(cs) => format!("a{}", join(cs)),
            LineageNode::Or(cs) => format!("o{}", join(cs)),
            LineageNode::Not(c) => format!("n{}", c.get()),
        });
    }
    let md = b.store.metadata(b.root, seeds);
    let b01 = |x: bool| if x { "1" } else { "0" };
    format!(
        "{}:{}:{}:{}{}{}",
        b.root.get(),
        b.store.len(),
        fnv(&parts.join(",")),
        b01(md.monotone),
        b01(md.has_negation),
        b01(md.has_exclusive_group)
    )
}

fn show_result(r: &HybridProbabilityResult) -> String {
    let dec = match r.decision() {
        AlertDecision::Alert => "Alert",
        AlertDecision::NoAlert => "NoAlert",
        AlertDecision::Indeterminate => "Indeterminate",
    };
    let m = r.metrics();
    let b01 = |x: bool| if x { "1" } else { "0" };
    let (lo, hi) = match r {
        HybridProbabilityResult::Exact { probability, .. } => (format!("{}", probability), format!("{}", probability)),
        HybridProbabilityResult::Bounded { interval, .. } => (format!("{}", interval.lower), format!("{}", interval.upper)),
        HybridProbabilityResult::NeedsExact { lower_bound, upper_bound, .. } => (
            lower_bound.map(|x| format!("{}", x)).unwrap_or("-".into()),
            upper_bound.map(|x| format!("{}", x)).unwrap_or("-".into()),
        ),
        HybridProbabilityResult::LowerBound { lower_bound, .. } => (format!("{}", lower_bound), "1".into()),
        HybridProbabilityResult::UnsafeApproximation { estimate, .. } => (format!("{}", estimate), format!("{}", estimate)),
    };
    format!(
        "{}/{}/{}/{}/{}/{}/{}{}{}/{}/{}",
        r.status(),
        dec,
        r.reason().as_str(),
        lo,
        hi,
        m.k_used,
        b01(m.frontier_exhausted),
        b01(m.cap_hit),
        b01(m.exact_used),
        m.marginal_gain,
        m.interval_width
    )
}

fn rle(toks: Vec<String>) -> String {
    let mut out: Vec<String> = Vec::new();
    let mut it = toks.into_iter();
    let mut cur = match it.next() {
        Some(c) => c,
        None => return String::new(),
    };
    let mut n = 1usize;
    for t in it {
        if t == cur {
            n += 1;
        } else {
            out.push(format!("{}*{}", n, cur));
            cur = t;
            n = 1;
        }
    }
    out.push(format!("{}*{}", n, cur));
    out.join(" ")
}

fn exec_ctl(b: Built, seeds: SeedSnapshot, p: &str) -> String {
    let v: Vec<u64> = match p.split(':').map(|x| x.parse::<u64>().ok()).collect::<Option<Vec<_>>>() {
        Some(v) if v.len() == 10 && v[3] > 0 => v,
        _ => return "bad-request".into(),
    };
    let cd = v[3] as f64;
    let config = HybridConfig {
        threshold: v[0] as f64 / cd,
        threshold_policy: ThresholdPolicyKind::Explicit,
        band_epsilon: v[1] as f64 / cd,
        marginal_gain_floor: v[2] as f64 / cd,
        k_initial: v[4] as usize,
        k_max: v[5] as usize,
        k_growth: v[6] as usize,
        topk_budget: Duration::from_micros(v[7]),
        sdd_budget: Duration::from_micros(v[8]),
        sdd_node_budget: v[9] as usize,
    };
    let meta = show_meta(&b, &seeds);
    let root = b.root;
    let store = Arc::new(Mutex::new(b.store));
    let seeds = Arc::new(seeds);
    let base = Instant::now();
    let run = |script: Script| -> (String, usize) {
        let clock = ScriptClock::new(base, script);
        let r = evaluate_hybrid_with_clock(&store, &seeds, root, &config, &clock);
        (show_result(&r), clock.readings())
    };
    let (r0, n) = run(Script::Never);
    let d = v[7] + v[8];
    let mut jf: Vec<String> = Vec::with_capacity(n + 1);
    let mut rf: Vec<String> = Vec::with_capacity(n + 1);
    for j in 0..n {
        jf.push(run(Script::Jump(j, d)).0);
        rf.push(run(Script::Ramp(j, d)).0);
    }
    jf.push(r0.clone());
    rf.push(r0);
    format!("{} ; J {} ; R {}", meta, rle(jf), rle(rf))
}

fn exec_topk(b: Built, seeds: SeedSnapshot, p: &str) -> String {
    let v: Vec<u64> = match p.split(':').map(|x| x.parse::<u64>().ok()).collect::<Option<Vec<_>>>() {
        Some(v) if v.len() == 2 => v,
        _ => return "bad-request".into(),
    };
    let meta = show_meta(&b, &seeds);
    let out = match evaluate_topk(&b.store, &seeds, b.root, v[0] as usize, Duration::from_secs(20), v[1] as usize) {
        Ok(t) => {
            let b01 = |x: bool| if x { "1" } else { "0" };
            format!(
                "ok/{}/{}/{}/{}/{}{}/{}",
                t.lower_bound,
                t.interval.lower,
                t.interval.upper,
                t.k_used,
                b01(t.frontier_exhausted),
                b01(t.cap_hit),
                t.marginal_gain
            )
        }
        Err(r) => format!("err/{}", r.as_str()),
    };
    format!("{} ; topk {}", meta, out)
}

// ---- generation -------------------------------------------------------------------------------------

struct GenSeeds {
    toks: Vec<String>,
    ids: Vec<u32>,
    has_group: bool,
}

fn gen_seeds(rng: &mut Rng, tier: Tier, stats: &mut Stats) -> GenSeeds {
    // size: mostly small, up to 12
    let n = match rng.below(10) {
        0..=4 => rng.range(1, 5),
        5..=7 => rng.range(4, 8),
        _ => {
            if tier == Tier::Quick {
                rng.range(6, 10)
            } else {
                rng.range(8, 12)
            }
        }
    };
    stats.hit(&format!("seeds_{:02}", n));
    // ids: dense, or sparse and shuffled
    let mut ids: Vec<u32> = if rng.chance(2, 3) {
        (0..n as u32).collect()
    } else {
        let mut pool: Vec<u32> = (0..24).collect();
        rng.shuffle(&mut pool);
        pool.truncate(n);
        pool
    };
    rng.shuffle(&mut ids);
    let mut toks = Vec::new();
    let mut i = 0;
    let mut has_group = false;
    let mut gid = rng.below(3) as u32;
    let want_groups = rng.chance(1, 3);
    while i < ids.len() {
        let left = ids.len() - i;
        if want_groups && left >= 2 && rng.chance(1, 2) {
            // an exclusive group of 2..4 members whose numerators sum to the denominator
            let m = rng.range(2, left.min(4));
            let den = 16u64;
            let mut cuts: Vec<u64> = (0..m - 1).map(|_| rng.range(0, 16) as u64).collect();
            cuts.sort();
            let mut prev = 0;
            let mut nums = Vec::new();
            for c in &cuts {
                nums.push(c - prev);
                prev = *c;
            }
            nums.push(den - prev);
            for k in 0..m {
                toks.push(format!("{}:{}:{}:{}", ids[i + k], nums[k], den, gid));
            }
            gid += 1 + rng.below(2) as u32;
            i += m;
            has_group = true;
            stats.hit("exclusive_group");
        } else {
            let den = *rng.pick(&[2u64, 4, 8, 16, 16, 16]);
            let num = match rng.below(12) {
                0 => 0,
                1 => den,
                _ => rng.range(0, den as usize) as u64,
            };
            toks.push(format!("{}:{}:{}:i", ids[i], num, den));
            i += 1;
        }
    }
    GenSeeds { toks, ids, has_group }
}

/// random DAG through the public store API; returns (ops, root ref)
fn gen_dag(rng: &mut Rng, ids: &[u32], negation: bool, missing: bool, stats: &mut Stats) -> (Vec<String>, String) {
    let mut ops: Vec<String> = Vec::new();
    let shape = rng.below(10);
    // literals first (a subset of the seeds, in random order)
    let mut lits: Vec<u32> = ids.to_vec();
    rng.shuffle(&mut lits);
    let keep = rng.range(1, lits.len());
    lits.truncate(keep);
    if missing {
        lits.push(30 + rng.below(3) as u32);
        stats.hit("missing_seed_literal");
    }
    for l in &lits {
        ops.push(format!("l{}", l));
    }
    let nl = ops.len();
    let pick_ref = |rng: &mut Rng, upto: usize| -> String {
        match rng.below(40) {
            0 => "F".into(),
            1 => "T".into(),
            _ => {
                // bias towards recent nodes, but keep sharing likely
                if rng.chance(1, 2) && upto > 3 {
                    (upto - 1 - rng.below(3)).to_string()
                } else {
                    rng.below(upto).to_string()
                }
            }
        }
    };
    if shape < 5 {
        // OR of ANDs of random literal subsets (the shape top-k is built for)
        stats.hit("shape_dnf");
        let terms = rng.range(1, 12);
        let mut ts = Vec::new();
        for _ in 0..terms {
            let k = rng.range(1, nl.min(4));
            let mut refs: Vec<String> = (0..k).map(|_| rng.below(nl).to_string()).collect();
            if negation && rng.chance(1, 4) {
                let x = rng.below(nl);
                ops.push(format!("n{}", x));
                refs.push((ops.len() - 1).to_string());
            }
            ops.push(format!("a{}", refs.join(".")));
            ts.push((ops.len() - 1).to_string());
        }
        ops.push(format!("o{}", ts.join(".")));
    } else if negation && nl >= 2 && shape >= 8 {
        // sub-formulas that are constant as functions but not syntactically (x AND NOT(x OR y) is false, x OR NOT(x AND y) is
        // true), created first so that they are the first child of their parent, combined with ordinary sub-formulas: the
        // identity of a connective must not stop its evaluation, only its annihilator may
        stats.hit("shape_semantic_constants");
        let x = rng.below(nl);
        let y = (x + 1 + rng.below(nl - 1)) % nl;
        let contradiction = rng.chance(1, 2);
        ops.push(format!("{}{}.{}", if contradiction { 'o' } else { 'a' }, x, y)); // nl
        ops.push(format!("n{}", nl)); // nl+1
        ops.push(format!("{}{}.{}", if contradiction { 'a' } else { 'o' }, x, nl + 1)); // nl+2 : the hidden constant
        let konst = nl + 2;
        // some ordinary material
        let m = rng.range(1, 4);
        for _ in 0..m {
            let upto = ops.len();
            let refs: Vec<String> = (0..rng.range(1, 3)).map(|_| rng.below(upto.min(nl)).to_string()).collect();
            ops.push(format!("{}{}", if rng.chance(1, 2) { 'a' } else { 'o' }, refs.join(".")));
        }
        let other = ops.len() - 1;
        // the hidden constant under the connective whose identity it is (and sometimes the other one)
        let conn = if contradiction == rng.chance(4, 5) { 'o' } else { 'a' };
        // children are visited in creation order: sometimes only later-created siblings (the constant comes first),
        // sometimes an earlier literal as well
        if rng.chance(2, 3) {
            ops.push(format!("{}{}.{}", conn, konst, other));
        } else {
            ops.push(format!("{}{}.{}.{}", conn, konst, other, rng.below(nl)));
        }
        if rng.chance(1, 3) {
            let top = ops.len() - 1;
            ops.push(format!("n{}", top));
        }
    } else {
        stats.hit("shape_random");
        let m = rng.range(1, 10);
        for _ in 0..m {
            let upto = ops.len();
            let k = rng.below(100);
            if negation && k < 20 {
                ops.push(format!("n{}", pick_ref(rng, upto)));
            } else {
                let ar = match rng.below(12) {
                    0 => 0,
                    1 => 1,
                    2..=7 => 2,
                    8..=10 => 3,
                    _ => 4,
                };
                let refs: Vec<String> = (0..ar).map(|_| pick_ref(rng, upto)).collect();
                let c = if rng.chance(1, 2) { 'a' } else { 'o' };
                ops.push(format!("{}{}", c, refs.join(".")));
            }
        }
    }
    let root = match rng.below(30) {
        0 => "F".to_string(),
        1 => "T".to_string(),
        2 | 3 => rng.below(ops.len()).to_string(),
        _ => (ops.len() - 1).to_string(),
    };
    (ops, root)
}

/// probability of the request's formula by world enumeration (generator-side only: used to put thresholds where
/// decisions are hard; never used to judge)
fn brute_probability(seed_toks: &[String], ops: &[String], root: &str) -> f64 {
    let seeds = parse_seeds(&seed_toks.join(",")).unwrap_or_default();
    let mut singles: Vec<&SeedTok> = Vec::new();
    let mut groups: BTreeMap<u32, Vec<&SeedTok>> = BTreeMap::new();
    for s in &seeds {
        match s.grp {
            None => singles.push(s),
            Some(g) => groups.entry(g).or_default().push(s),
        }
    }
    let groups: Vec<Vec<&SeedTok>> = groups.into_values().collect();
    fn eval(ops: &[String], r: &str, w: &std::collections::HashSet<u32>, memo: &mut Vec<Option<bool>>) -> bool {
        match r {
            "F" => false,
            "T" => true,
            _ => {
                let i: usize = r.parse().unwrap();
                if let Some(v) = memo[i] {
                    return v;
                }
                let (k, rest) = ops[i].split_at(1);
                let v = match k {
                    "l" => w.contains(&rest.parse::<u32>().unwrap()),
                    "n" => !eval(ops, rest, w, memo),
                    "a" => rest.split('.').filter(|x| !x.is_empty()).all(|x| eval(ops, x, w, memo)),
                    _ => rest.split('.').filter(|x| !x.is_empty()).any(|x| eval(ops, x, w, memo)),
                };
                memo[i] = Some(v);
                v
            }
        }
    }
    let mut total = 0.0;
    let mut choice = vec![0usize; groups.len()];
    loop {
        for mask in 0u32..(1u32 << singles.len()) {
            let mut w = std::collections::HashSet::new();
            let mut weight = 1.0;
            for (i, s) in singles.iter().enumerate() {
                let p = s.num as f64 / s.den as f64;
                if mask & (1 << i) != 0 {
                    w.insert(s.id);
                    weight *= p;
                } else {
                    weight *= 1.0 - p;
                }
            }
            for (g, c) in groups.iter().zip(choice.iter()) {
                w.insert(g[*c].id);
                weight *= g[*c].num as f64 / g[*c].den as f64;
            }
            if weight > 0.0 && eval(ops, root, &w, &mut vec![None; ops.len()]) {
                total += weight;
            }
        }
        // next combination of group choices
        let mut k = 0;
        loop {
            if k == groups.len() {
                return total;
            }
            choice[k] += 1;
            if choice[k] < groups[k].len() {
                break;
            }
            choice[k] = 0;
            k += 1;
        }
    }
}

fn gen_config(rng: &mut Rng, p: f64, stats: &mut Stats) -> String {
    let cd = 64u64;
    let near = ((p * cd as f64).round() as i64 + rng.range(0, 6) as i64 - 3).clamp(0, cd as i64) as u64;
    let mut tn = match rng.below(10) {
        0 => 0,
        1 => cd,
        2..=6 => {
            stats.hit("threshold_near_probability");
            near
        }
        _ => rng.range(0, cd as usize) as u64,
    };
    let mut en = *rng.pick(&[0u64, 1, 2, 4, 8, 64]);
    let fn_ = *rng.pick(&[0u64, 0, 1, 2, 8, 64, 200]);
    let mut ki = *rng.pick(&[1u64, 1, 1, 2, 2, 3, 4]);
    let mut km = ki + *rng.pick(&[0u64, 0, 1, 2, 4, 8, 16]);
    let mut kg = rng.range(2, 4) as u64;
    let mut b1 = *rng.pick(&[1u64, 1000, 25000]);
    let b2 = *rng.pick(&[1u64, 1000, 250000]);
    let mut nb = if rng.chance(1, 8) { 2u64 } else { 1_000_000 };
    if nb == 2 {
        stats.hit("node_budget_minimal");
    }
    if rng.chance(1, 30) {
        // invalid configuration: the controller must refuse to decide
        stats.hit("config_invalid");
        match rng.below(7) {
            0 => ki = 0,
            1 => km = ki - 1,
            2 => kg = rng.below(2) as u64,
            3 => tn = cd + 1 + rng.below(5) as u64,
            4 => en = cd + 1,
            5 => b1 = 0,
            _ => nb = rng.below(2) as u64,
        }
    } else {
        stats.hit("config_valid");
    }
    format!("C{}:{}:{}:{}:{}:{}:{}:{}:{}:{}", tn, en, fn_, cd, ki, km, kg, b1, b2, nb)
}

impl Prop for C08 {
    fn id(&self) -> &'static str {
        "hyb"
    }
    fn cases(&self, tier: Tier) -> usize {
        match tier {
            Tier::Quick => 3000,
            Tier::Thorough => 40000,
        }
    }

    /// every OR-of-ANDs over three seeds (all 128 sets of non-empty conjunctions) × thresholds × (k_initial, k_max),
    /// each swept over every clock reading
    fn exhaustive(&self, tier: Tier, stats: &mut Stats) -> Vec<String> {
        let seeds = "S0:8:16:i,1:4:16:i,2:12:16:i";
        let thresholds: &[u64] = if tier == Tier::Quick { &[32] } else { &[8, 24, 32, 40, 56] };
        let ks: &[(u64, u64)] = if tier == Tier::Quick { &[(1, 2)] } else { &[(1, 1), (1, 2), (1, 4), (2, 2), (3, 8)] };
        let mut out = Vec::new();
        for set in 0u32..128 {
            let mut ops: Vec<String> = vec!["l0".into(), "l1".into(), "l2".into()];
            let mut terms = Vec::new();
            for t in 0u32..7 {
                if set & (1 << t) != 0 {
                    let mask = t + 1;
                    let lits: Vec<String> = (0..3).filter(|b| mask & (1 << b) != 0).map(|b| b.to_string()).collect();
                    ops.push(format!("a{}", lits.join(".")));
                    terms.push((ops.len() - 1).to_string());
                }
            }
            ops.push(format!("o{}", terms.join(".")));
            let root = ops.len() - 1;
            for th in thresholds {
                for (ki, km) in ks {
                    out.push(format!("hyb ctl {} O{} R{} C{}:2:1:64:{}:{}:2:1000:1000:1000000", seeds, ops.join(","), root, th, ki, km));
                }
            }
        }
        stats.add("exhaustive_dnf_over_3_seeds", out.len() as u64);
        out
    }

    fn gen(&self, rng: &mut Rng, tier: Tier, _i: usize, stats: &mut Stats) -> String {
        let seeds = gen_seeds(rng, tier, stats);
        let negation = rng.chance(3, 10);
        let missing = rng.chance(1, 40);
        stats.hit(if negation { "lineage_with_negation" } else { "lineage_monotone" });
        if seeds.has_group {
            stats.hit("snapshot_with_exclusive_group");
        }
        let (ops, root) = gen_dag(rng, &seeds.ids, negation, missing, stats);
        let s = if seeds.toks.is_empty() { "-".to_string() } else { seeds.toks.join(",") };
        if rng.chance(1, 8) {
            stats.hit("entry_evaluate_topk");
            let k = if rng.chance(1, 20) { 0 } else { rng.range(1, 6) };
            let nb = if rng.chance(1, 10) { 2 } else { 1_000_000 };
            format!("hyb topk S{} O{} R{} K{}:{}", s, ops.join(","), root, k, nb)
        } else {
            stats.hit("entry_evaluate_hybrid_with_clock");
            {
                let p = brute_probability(&seeds.toks, &ops, &root);
                format!("hyb ctl S{} O{} R{} {}", s, ops.join(","), root, gen_config(rng, p, stats))
            }
        }
    }

    fn exec(&self, req: &str) -> String {
        let t: Vec<&str> = req.split_whitespace().collect();
        if t.len() != 6 || t[0] != "hyb" {
            return "bad-request".into();
        }
        let (s, o, r, p) = (t[2], t[3], t[4], t[5]);
        let (s, o, r) = match (s.strip_prefix('S'), o.strip_prefix('O'), r.strip_prefix('R')) {
            (Some(a), Some(b), Some(c)) => (a, b, c),
            _ => return "bad-request".into(),
        };
        let seeds = match parse_seeds(s) {
            Some(x) => x,
            None => return "bad-request".into(),
        };
        let snap = match snapshot(&seeds) {
            Ok(x) => x,
            Err(e) => return e,
        };
        let built = match build(o, r) {
            Some(b) => b,
            None => return "bad-request".into(),
        };
        match (t[1], p.split_at(1)) {
            ("ctl", ("C", p)) => exec_ctl(built, snap, p),
            ("topk", ("K", p)) => exec_topk(built, snap, p),
            _ => "bad-request".into(),
        }
    }
}
