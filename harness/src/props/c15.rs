//! C15 — term identifiers are a stable bijection, also across database union.
//! Protocol documented in lean/Kolibrie/Driver/C15.lean.
use super::{Prop, Stats, Tier};
use crate::proto::*;
use crate::rng::Rng;
use kolibrie::sparql_database::SparqlDatabase;
use shared::dataset_index::{GraphId, Quad};
use shared::dictionary::Dictionary;
use shared::quoted_triple_store::{is_quoted_triple_id, QuotedTripleStore, QUOTED_TRIPLE_ID_BIT};
use shared::triple::Triple;
use std::panic::{catch_unwind, AssertUnwindSafe};

pub struct C15;

const QB: u32 = QUOTED_TRIPLE_ID_BIT;

// ---- term trees ---------------------------------------------------------------------------------

#[derive(Clone, Debug, PartialEq, Eq)]
enum Tm {
    P(String),
    Q(Box<Tm>, Box<Tm>, Box<Tm>),
}

/// the string handed to `encode_term_star`
fn render(t: &Tm) -> String {
    match t {
        Tm::P(s) => s.clone(),
        Tm::Q(s, p, o) => format!("<< {} {} {} >>", render(s), render(p), render(o)),
    }
}
/// protocol syntax: hex | (t,t,t)
fn show_tm(t: &Tm) -> String {
    match t {
        Tm::P(s) => hex(s),
        Tm::Q(s, p, o) => format!("({},{},{})", show_tm(s), show_tm(p), show_tm(o)),
    }
}
fn parse_tm(b: &[u8], i: &mut usize) -> Option<Tm> {
    if *i < b.len() && b[*i] == b'(' {
        *i += 1;
        let s = parse_tm(b, i)?;
        if *i >= b.len() || b[*i] != b',' {
            return None;
        }
        *i += 1;
        let p = parse_tm(b, i)?;
        if *i >= b.len() || b[*i] != b',' {
            return None;
        }
        *i += 1;
        let o = parse_tm(b, i)?;
        if *i >= b.len() || b[*i] != b')' {
            return None;
        }
        *i += 1;
        Some(Tm::Q(Box::new(s), Box::new(p), Box::new(o)))
    } else {
        let st = *i;
        while *i < b.len() && (b[*i].is_ascii_digit() || (b'a'..=b'f').contains(&b[*i]) || b[*i] == b'-') {
            *i += 1;
        }
        if *i == st {
            return None;
        }
        Some(Tm::P(unhex(std::str::from_utf8(&b[st..*i]).ok()?)?))
    }
}
fn parse_tms(s: &str) -> Option<Vec<Tm>> {
    let b = s.as_bytes();
    let mut i = 0;
    let mut out = Vec::new();
    loop {
        out.push(parse_tm(b, &mut i)?);
        if i == b.len() {
            return Some(out);
        }
        if b[i] != b',' {
            return None;
        }
        i += 1;
    }
}

// ---- canonical output ---------------------------------------------------------------------------

fn bracket(tag: &str, l: &[String]) -> String {
    format!("{}[{}]", tag, l.join(","))
}
fn show_ot(o: Option<String>) -> String {
    match o {
        None => "?".into(),
        Some(s) => hex(&s),
    }
}
fn comp3(s: &str) -> Option<(u32, u32, u32)> {
    let v = nat_list(s, ',')?;
    if v.len() != 3 {
        return None;
    }
    Some((v[0], v[1], v[2]))
}
fn dump_dict(d: &Dictionary) -> String {
    let mut a: Vec<(u32, String)> = d.id_to_string.iter().map(|(k, v)| (*k, v.clone())).collect();
    a.sort();
    let a: Vec<String> = a.iter().map(|(k, v)| format!("{}={}", k, hex(v))).collect();
    let mut b: Vec<String> = d.string_to_id.iter().map(|(k, v)| format!("{}={}", hex(k), v)).collect();
    b.sort();
    format!("{}{}n={}", bracket("D", &a), bracket("S", &b), d.next_id)
}
fn dump_q(q: &QuotedTripleStore) -> String {
    let mut a: Vec<(u32, (u32, u32, u32))> = q.id_to_components.iter().map(|(k, v)| (*k, *v)).collect();
    a.sort();
    let a: Vec<String> = a.iter().map(|(k, c)| format!("{}={}.{}.{}", k, c.0, c.1, c.2)).collect();
    let mut b: Vec<String> = q.components_to_id.iter().map(|(c, k)| format!("{}.{}.{}={}", c.0, c.1, c.2, k)).collect();
    b.sort();
    format!("{}{}n={}", bracket("Q", &a), bracket("C", &b), q.next_qt_id)
}

/// nesting is well-founded: a component that is a quoted id is smaller than the id it is a component of.
/// `decode_term` / `reencode_term_id` recurse without a visited set, so on an ill-founded store they overflow the
/// stack and abort the process; the harness looks first and reports instead.
fn store_wf(q: &QuotedTripleStore) -> bool {
    q.id_to_components.iter().all(|(id, (s, p, o))| [s, p, o].iter().all(|c| !is_quoted_triple_id(**c) || **c < *id))
}

fn lex_dataset(u: &SparqlDatabase) -> String {
    let mut ids: Vec<u32> = u.dictionary.read().unwrap().id_to_string.keys().copied().collect();
    ids.extend(u.quoted_triple_store.read().unwrap().id_to_components.keys().copied());
    let mut terms: Vec<String> = ids.iter().map(|id| show_ot(u.decode_any(*id))).collect();
    terms.sort();
    let mut graphs: Vec<String> = u
        .dataset_index
        .named_graphs()
        .into_iter()
        .map(|g| match g {
            GraphId::Named(g) => show_ot(u.decode_any(g)),
            GraphId::Default => "_".into(),
        })
        .collect();
    graphs.sort();
    let mut quads: Vec<String> = u
        .dataset_index
        .all_quads()
        .into_iter()
        .map(|q| {
            let g = match q.graph {
                GraphId::Default => "_".to_string(),
                GraphId::Named(g) => show_ot(u.decode_any(g)),
            };
            format!("{}.{}.{}.{}", show_ot(u.decode_any(q.subject)), show_ot(u.decode_any(q.predicate)), show_ot(u.decode_any(q.object)), g)
        })
        .collect();
    quads.sort();
    let mut seeds: Vec<String> = u
        .probability_seeds
        .iter()
        .map(|(t, p)| {
            format!(
                "{}.{}.{}={}",
                show_ot(u.decode_any(t.subject)),
                show_ot(u.decode_any(t.predicate)),
                show_ot(u.decode_any(t.object)),
                (p * 1000.0).round() as u64
            )
        })
        .collect();
    seeds.sort();
    format!("{} {} {} {}", bracket("T", &terms), bracket("G", &graphs), bracket("Q", &quads), bracket("P", &seeds))
}

fn ids_of(a: &SparqlDatabase) -> Vec<u32> {
    let mut ids: Vec<u32> = a.dictionary.read().unwrap().id_to_string.keys().copied().collect();
    ids.extend(a.quoted_triple_store.read().unwrap().id_to_components.keys().copied());
    ids.sort();
    ids
}

fn dump_db(u: &SparqlDatabase) -> String {
    let mut gs: Vec<u32> = u.dataset_index.named_graphs().into_iter().filter_map(|g| if let GraphId::Named(g) = g { Some(g) } else { None }).collect();
    gs.sort();
    let mut qs: Vec<[u64; 4]> = u
        .dataset_index
        .all_quads()
        .into_iter()
        .map(|q| [q.subject as u64, q.predicate as u64, q.object as u64, match q.graph { GraphId::Default => 0, GraphId::Named(g) => g as u64 + 1 }])
        .collect();
    qs.sort();
    let mut ss: Vec<[u64; 4]> = u
        .probability_seeds
        .iter()
        .map(|(t, p)| [t.subject as u64, t.predicate as u64, t.object as u64, (p * 1000.0).round() as u64])
        .collect();
    ss.sort();
    let f = |v: &Vec<[u64; 4]>| v.iter().map(|k| format!("{}.{}.{}.{}", k[0], k[1], k[2], k[3])).collect::<Vec<_>>();
    format!(
        "{} {} {} {} {}",
        dump_dict(&u.dictionary.read().unwrap()),
        dump_q(&u.quoted_triple_store.read().unwrap()),
        bracket("G", &gs.iter().map(|g| g.to_string()).collect::<Vec<_>>()),
        bracket("A", &f(&qs)),
        bracket("P", &f(&ss))
    )
}

// ---- executing build scripts on the real database ----------------------------------------------------

fn build_op(db: &mut SparqlDatabase, t: &str, first: bool) -> Option<()> {
    let (k, a) = t.split_once(':')?;
    match k {
        "N" if first => {
            db.dictionary.write().unwrap().next_id = a.parse().ok()?;
        }
        "e" => {
            let s = unhex(a)?;
            db.dictionary.write().unwrap().encode(&s);
        }
        "q" => {
            let c = comp3(a)?;
            db.quoted_triple_store.write().unwrap().encode(c.0, c.1, c.2);
        }
        "x" => {
            let v = parse_tms(a)?;
            if v.len() != 1 {
                return None;
            }
            db.encode_term_star(&render(&v[0]));
        }
        "a" => {
            let v: Vec<&str> = a.split(',').collect();
            if v.len() != 4 {
                return None;
            }
            let g = match opt_nat(v[3])? {
                None => GraphId::Default,
                Some(g) => GraphId::Named(g),
            };
            db.add_quad(Quad { subject: v[0].parse().ok()?, predicate: v[1].parse().ok()?, object: v[2].parse().ok()?, graph: g });
        }
        "c" => {
            db.dataset_index.create_graph(GraphId::Named(a.parse().ok()?));
        }
        "s" => {
            let v = nat_list(a, ',')?;
            if v.len() != 4 {
                return None;
            }
            db.probability_seeds.insert(Triple { subject: v[0], predicate: v[1], object: v[2] }, v[3] as f64 / 1000.0);
        }
        "T" => {
            let v: Vec<&str> = a.split(',').collect();
            if v.len() != 3 {
                return None;
            }
            db.add_triple_parts(&unhex(v[0])?, &unhex(v[1])?, &unhex(v[2])?);
        }
        "P" => {
            let v: Vec<&str> = a.split(',').collect();
            if v.len() != 4 {
                return None;
            }
            db.add_tagged_triple(&unhex(v[0])?, &unhex(v[1])?, &unhex(v[2])?, v[3].parse::<u32>().ok()? as f64 / 1000.0);
        }
        "G" => {
            let v = parse_tms(a)?;
            if v.len() != 4 {
                return None;
            }
            let g = match &v[3] {
                Tm::P(s) => s.clone(),
                _ => return None,
            };
            db.add_quad_parts(&render(&v[0]), &render(&v[1]), &render(&v[2]), &g);
        }
        _ => return None,
    }
    Some(())
}

/// Ok(db) | Err(true) = malformed request | Err(false) = a call panicked
fn build(toks: &[&str]) -> Result<SparqlDatabase, bool> {
    let mut db = SparqlDatabase::new();
    // one database in three has a query history: after half of its operations two constant-free SELECTs run (whatever a
    // query caches - statistics, graph lists - is stale when the remaining operations have been applied)
    let warm = toks.len() >= 2 && crate::proto::fnv(&toks.join(" ")) % 3 == 0;
    for (i, t) in toks.iter().enumerate() {
        if warm && i == toks.len() / 2 {
            let _ = catch_unwind(AssertUnwindSafe(|| {
                let _ = kolibrie::execute_query::execute_sparql_query("SELECT * WHERE { ?s ?p ?o }", &mut db);
                let _ = kolibrie::execute_query::execute_sparql_query("SELECT ?g ?s WHERE { GRAPH ?g { ?s ?p ?o } }", &mut db);
            }));
        }
        let r = catch_unwind(AssertUnwindSafe(|| build_op(&mut db, t, i == 0)));
        match r {
            Ok(Some(())) => {}
            Ok(None) => return Err(true),
            Err(_) => return Err(false),
        }
    }
    Ok(db)
}

fn exec_union(toks: &[&str], exact: bool) -> String {
    let parts: Vec<&[&str]> = toks.split(|t| *t == "/").collect();
    if parts.len() != 2 {
        return "bad-request".into();
    }
    let a = build(parts[0]);
    let b = build(parts[1]);
    let (mut a, b) = match (a, b) {
        (Err(true), _) | (_, Err(true)) => return "bad-request".into(),
        (Ok(a), Ok(b)) => (a, b),
        _ => return "panic".into(),
    };
    if !store_wf(&a.quoted_triple_store.read().unwrap()) || !store_wf(&b.quoted_triple_store.read().unwrap()) {
        return "fuel".into(); // forward references in the input: outside the hypotheses (the driver answers `fuel` too)
    }
    let a_ids = ids_of(&a);
    let u = match catch_unwind(AssertUnwindSafe(|| a.union(&b))) {
        Ok(u) => u,
        Err(_) => return "panic".into(),
    };
    if exact {
        return dump_db(&u);
    }
    if !store_wf(&u.quoted_triple_store.read().unwrap()) {
        return "ill-founded-quoted-store-after-union".into();
    }
    let k: Vec<String> = a_ids.iter().map(|id| format!("{}={}", id, show_ot(u.decode_any(*id)))).collect();
    format!("{} {}", lex_dataset(&u), bracket("K", &k))
}

// ---- `seq` ----------------------------------------------------------------------------------------

fn exec_seq(toks: &[&str]) -> String {
    let mut d = Dictionary::new();
    let mut q = QuotedTripleStore::new();
    let mut out: Vec<String> = Vec::new();
    let mut i = 0;
    if i < toks.len() {
        if let Some(v) = toks[i].strip_prefix("N:") {
            match v.parse::<u32>() {
                Ok(v) => d.next_id = v,
                Err(_) => return "bad-request".into(),
            }
            i += 1;
        }
    }
    if i < toks.len() {
        if let Some(v) = toks[i].strip_prefix("NQ:") {
            match v.parse::<u32>() {
                Ok(v) => q.next_qt_id = v,
                Err(_) => return "bad-request".into(),
            }
            i += 1;
        }
    }
    for t in &toks[i..] {
        if *t == "Z" {
            out.push(format!("{}/{}", dump_dict(&d), dump_q(&q)));
            continue;
        }
        let (k, a) = match t.split_once(':') {
            Some(x) => x,
            None => return "bad-request".into(),
        };
        let r: Option<String> = match k {
            "e" => unhex(a).map(|s| match catch_unwind(AssertUnwindSafe(|| d.encode(&s))) {
                Ok(id) => id.to_string(),
                Err(_) => "panic".into(),
            }),
            "d" => a.parse::<u32>().ok().map(|id| match d.decode(id) {
                Some(s) => hex(s),
                None => "none".into(),
            }),
            "q" => comp3(a).map(|c| match catch_unwind(AssertUnwindSafe(|| q.encode(c.0, c.1, c.2))) {
                Ok(id) => id.to_string(),
                Err(_) => "panic".into(),
            }),
            "r" => a.parse::<u32>().ok().map(|id| match q.decode(id) {
                Some(c) => format!("{}.{}.{}", c.0, c.1, c.2),
                None => "none".into(),
            }),
            "t" => a.parse::<u32>().ok().map(|id| {
                if !store_wf(&q) {
                    return "fuel".to_string();
                }
                match d.decode_term(id, &q) {
                    Some(s) => hex(&s),
                    None => "none".into(),
                }
            }),
            "i" => a.parse::<u32>().ok().map(|id| if is_quoted_triple_id(id) { "t".into() } else { "f".into() }),
            _ => None,
        };
        match r {
            Some(s) => out.push(s),
            None => return "bad-request".into(),
        }
    }
    out.join(" ")
}

// ---- `mrg` ----------------------------------------------------------------------------------------

fn hex_list(s: &str) -> Option<Vec<String>> {
    if s == "." {
        return Some(vec![]);
    }
    s.split(',').map(unhex).collect()
}

fn exec_mrg(toks: &[&str]) -> String {
    if toks.len() != 5 || toks[1] != "/" || toks[3] != "/" {
        return "bad-request".into();
    }
    let (sa, sb, probes) = match (hex_list(toks[0]), hex_list(toks[2]), hex_list(toks[4])) {
        (Some(a), Some(b), Some(c)) => (a, b, c),
        _ => return "bad-request".into(),
    };
    let mut a = Dictionary::new();
    for s in &sa {
        a.encode(s);
    }
    let mut b = Dictionary::new();
    for s in &sb {
        b.encode(s);
    }
    a.merge(&b);
    let mut out = Vec::new();
    for s in &probes {
        match catch_unwind(AssertUnwindSafe(|| a.encode(s))) {
            Ok(id) => out.push(match a.decode(id) {
                Some(r) => hex(r),
                None => "none".into(),
            }),
            Err(_) => out.push("panic".into()),
        }
    }
    out.push(a.id_to_string.len().to_string());
    out.join(" ")
}

// ---- generation -------------------------------------------------------------------------------------

/// strings the dictionary must treat as opaque: empty, whitespace, `<<`, quotes, non-ASCII, prefixes of each other
const ODD: &[&str] = &["", " ", "a", "a ", "A", "<< a b c >>", "\"x\"", "<http://e/x>", "é", "日本", "a\nb", "ab", "abc", "_:b0", "0", "-"];

fn safe_word(rng: &mut Rng, pool: usize) -> String {
    // survives `encode_term_star` unchanged: no whitespace, `<`, `>`, `"`
    let k = rng.below(pool);
    match k % 4 {
        0 => format!("http://e/{}", k),
        1 => format!("p{}", k),
        2 => format!("_:b{}", k),
        _ => format!("é{}", k),
    }
}

/// mirror of one database's identifier allocation (used only to *produce* mostly valid ids, never to judge)
struct Sim {
    base: u32,
    strs: Vec<String>,
    comps: Vec<(u32, u32, u32)>,
    ops: Vec<String>,
}
impl Sim {
    fn new() -> Self {
        Sim { base: 0, strs: vec![], comps: vec![], ops: vec![] }
    }
    fn enc(&mut self, s: &str) -> u32 {
        if let Some(k) = self.strs.iter().position(|x| x == s) {
            return self.base + k as u32;
        }
        self.strs.push(s.to_string());
        self.base + self.strs.len() as u32 - 1
    }
    fn qenc(&mut self, c: (u32, u32, u32)) -> u32 {
        if let Some(k) = self.comps.iter().position(|x| *x == c) {
            return QB + k as u32;
        }
        self.comps.push(c);
        QB + self.comps.len() as u32 - 1
    }
    fn star(&mut self, t: &Tm) -> u32 {
        match t {
            Tm::P(s) => self.enc(s),
            Tm::Q(s, p, o) => {
                let a = self.star(s);
                let b = self.star(p);
                let c = self.star(o);
                self.qenc((a, b, c))
            }
        }
    }
    /// some identifier that currently decodes (plain or quoted); allocates a plain one if there is none
    fn any_id(&mut self, rng: &mut Rng, quoted_pct: usize) -> u32 {
        if !self.comps.is_empty() && rng.below(100) < quoted_pct {
            QB + rng.below(self.comps.len()) as u32
        } else if !self.strs.is_empty() {
            self.base + rng.below(self.strs.len()) as u32
        } else {
            let s = "seed0".to_string();
            self.ops.push(format!("e:{}", hex(&s)));
            self.enc(&s)
        }
    }
}

fn gen_tree(rng: &mut Rng, depth: usize, pool: usize) -> Tm {
    if depth == 0 || rng.chance(2, 5) {
        Tm::P(safe_word(rng, pool))
    } else {
        Tm::Q(Box::new(gen_tree(rng, depth - 1, pool)), Box::new(Tm::P(safe_word(rng, pool))), Box::new(gen_tree(rng, depth - 1, pool)))
    }
}
fn tree_depth(t: &Tm) -> usize {
    match t {
        Tm::P(_) => 0,
        Tm::Q(a, b, c) => 1 + tree_depth(a).max(tree_depth(b)).max(tree_depth(c)),
    }
}

/// one build script. `pool`: vocabulary size (small pool = much sharing between the two databases),
/// `salt`: databases with different salts have disjoint private vocabularies
fn gen_build(rng: &mut Rng, len: usize, pool: usize, salt: &str, stats: &mut Stats, dangling: bool) -> Vec<String> {
    let mut sim = Sim::new();
    let word = |rng: &mut Rng| -> String {
        if rng.chance(1, 3) {
            format!("{}{}", salt, rng.below(pool))
        } else if rng.chance(1, 8) {
            ODD[rng.below(ODD.len())].to_string()
        } else {
            safe_word(rng, pool)
        }
    };
    for _ in 0..len {
        let k = rng.below(100);
        if k < 14 {
            let s = word(rng);
            sim.enc(&s);
            sim.ops.push(format!("e:{}", hex(&s)));
            stats.hit("b_enc");
        } else if k < 26 {
            let c = (sim.any_id(rng, 40), sim.any_id(rng, 5), sim.any_id(rng, 40));
            sim.qenc(c);
            sim.ops.push(format!("q:{},{},{}", c.0, c.1, c.2));
            stats.hit("b_qenc");
        } else if k < 36 {
            let t = gen_tree(rng, 3, pool);
            stats.hit(&format!("b_star_depth{}", tree_depth(&t)));
            sim.star(&t);
            sim.ops.push(format!("x:{}", show_tm(&t)));
        } else if k < 56 {
            let (s, p, o) = (sim.any_id(rng, 30), sim.any_id(rng, 5), sim.any_id(rng, 30));
            let g = if rng.chance(1, 2) { "_".to_string() } else { sim.any_id(rng, 10).to_string() };
            sim.ops.push(format!("a:{},{},{},{}", s, p, o, g));
            stats.hit("b_quad");
        } else if k < 62 {
            let g = sim.any_id(rng, 10);
            sim.ops.push(format!("c:{}", g));
            stats.hit("b_create_graph");
        } else if k < 70 {
            let (s, p, o) = (sim.any_id(rng, 30), sim.any_id(rng, 5), sim.any_id(rng, 30));
            sim.ops.push(format!("s:{},{},{},{}", s, p, o, rng.below(1001)));
            stats.hit("b_seed");
        } else if k < 80 {
            let (s, p, o) = (word(rng), word(rng), word(rng));
            sim.enc(&s);
            sim.enc(&p);
            sim.enc(&o);
            sim.ops.push(format!("T:{},{},{}", hex(&s), hex(&p), hex(&o)));
            stats.hit("b_triple_parts");
        } else if k < 90 {
            let (s, p, o) = (word(rng), word(rng), word(rng));
            sim.enc(&s);
            sim.enc(&p);
            sim.enc(&o);
            sim.ops.push(format!("P:{},{},{},{}", hex(&s), hex(&p), hex(&o), rng.below(1001)));
            stats.hit("b_tagged");
        } else {
            let (s, p, o) = (gen_tree(rng, 2, pool), Tm::P(safe_word(rng, pool)), gen_tree(rng, 3, pool));
            let g = safe_word(rng, pool);
            sim.star(&s);
            sim.star(&p);
            sim.star(&o);
            sim.enc(&g);
            sim.ops.push(format!("G:{},{},{},{}", show_tm(&s), show_tm(&p), show_tm(&o), hex(&g)));
            stats.hit("b_quad_parts");
        }
    }
    if dangling {
        // an identifier that decodes to nothing, somewhere the union has to translate it
        let bad_plain = sim.base + sim.strs.len() as u32 + rng.below(3) as u32;
        let bad_q = QB + sim.comps.len() as u32 + rng.below(3) as u32;
        let bad = if rng.chance(1, 2) { bad_plain } else { bad_q };
        let ok = sim.any_id(rng, 20);
        match rng.below(4) {
            0 => sim.ops.push(format!("a:{},{},{},_", bad, ok, ok)),
            1 => sim.ops.push(format!("c:{}", bad)),
            2 => sim.ops.push(format!("s:{},{},{},500", ok, ok, bad)),
            // a quoted triple with a dangling *plain* component (a dangling quoted component would be a forward reference)
            _ => sim.ops.push(format!("q:{},{},{}", ok, bad_plain, ok)),
        }
        stats.hit("b_dangling");
    }
    sim.ops
}

fn gen_union(rng: &mut Rng, tier: Tier, stats: &mut Stats, kw: &str) -> String {
    let maxlen = if tier == Tier::Quick { 14 } else { 40 };
    let pool = *rng.pick(&[1usize, 2, 3, 5, 8, 20]);
    let la = rng.below(maxlen + 1);
    let lb = rng.below(maxlen + 1);
    let shape = rng.below(100);
    let (sa, sb) = if shape < 50 { ("s", "s") } else { ("a", "b") }; // shared or disjoint private vocabulary
    stats.hit(if shape < 50 { "union_shared_vocab" } else { "union_disjoint_private_vocab" });
    let dang_b = shape >= 94;
    let dang_a = shape >= 90 && shape < 94;
    let mut a = gen_build(rng, la, pool, sa, stats, dang_a);
    let b = gen_build(rng, lb, pool, sb, stats, dang_b);
    if rng.chance(1, 25) {
        // id space of `self` almost exhausted: the union may have to panic on the assert
        let n = QB - rng.below(4) as u32;
        // ids in `a`'s script were produced for base 0: rebuild it as pure string-level ops
        a = a.into_iter().filter(|t| t.starts_with("e:") || t.starts_with("T:") || t.starts_with("P:") || t.starts_with("x:") || t.starts_with("G:")).collect();
        a.insert(0, format!("N:{}", n));
        stats.hit("union_self_ids_near_exhaustion");
    }
    if la == 0 || lb == 0 {
        stats.hit("union_one_side_empty");
    }
    format!("dict {} {} / {}", kw, a.join(" "), b.join(" "))
}

fn gen_seq(rng: &mut Rng, tier: Tier, stats: &mut Stats) -> String {
    let maxlen = if tier == Tier::Quick { 40 } else { 200 };
    let len = rng.range(1, maxlen);
    let pool = *rng.pick(&[1usize, 2, 4, 8, 30]);
    let mut sim = Sim::new();
    let mut head: Vec<String> = Vec::new();
    let boundary = rng.chance(1, 10);
    let mut qlimit: u64 = u32::MAX as u64;
    let mut qbase = QB;
    if boundary {
        // counters close to the end of their ranges
        if rng.chance(1, 2) {
            sim.base = QB - rng.below(5) as u32;
            head.push(format!("N:{}", sim.base));
            stats.hit("seq_plain_range_end");
        }
        if rng.chance(1, 2) {
            qbase = u32::MAX - rng.below(5) as u32;
            head.push(format!("NQ:{}", qbase));
            stats.hit("seq_quoted_range_end");
        }
        qlimit = u32::MAX as u64;
    }
    let mut nstr: u64 = 0; // successfully allocated plain ids
    let mut ncomp: u64 = 0;
    let mut comps: Vec<(u32, u32, u32)> = Vec::new();
    let mut strs: Vec<String> = Vec::new();
    let mut toks = head;
    let some_id = |rng: &mut Rng, base: u32, nstr: u64, qbase: u32, ncomp: u64| -> u32 {
        let k = rng.below(100);
        if k < 45 && nstr > 0 {
            base + rng.below(nstr as usize) as u32
        } else if k < 80 && ncomp > 0 {
            qbase + rng.below(ncomp as usize) as u32
        } else if k < 90 {
            base.wrapping_add(nstr as u32).wrapping_add(rng.below(3) as u32) // not (yet) allocated
        } else {
            *rng.pick(&[0u32, 1, QB - 1, QB, QB + 1, u32::MAX, u32::MAX - 1, 0x3FFF_FFFF, 0x4000_0000, 0x7FFF_FFFF, 0x8000_0000, 0xBFFF_FFFF, 0xC000_0000])
        }
    };
    for _ in 0..len {
        let k = rng.below(100);
        if k < 35 {
            let s = if rng.chance(1, 4) { ODD[rng.below(ODD.len())].to_string() } else { safe_word(rng, pool) };
            if !strs.contains(&s) && (sim.base as u64 + nstr) < QB as u64 {
                strs.push(s.clone());
                nstr += 1;
            }
            toks.push(format!("e:{}", hex(&s)));
            stats.hit("seq_enc");
        } else if k < 45 {
            toks.push(format!("d:{}", some_id(rng, sim.base, nstr, qbase, ncomp)));
            stats.hit("seq_dec");
        } else if k < 65 {
            // components: allocated ids (never a quoted id that is not allocated yet: the raw API would accept the
            // forward reference and `decode_term` would then recurse forever)
            let mut pickc = |rng: &mut Rng| -> u32 {
                let x = some_id(rng, sim.base, nstr, qbase, ncomp);
                if is_quoted_triple_id(x) && !(x >= qbase && ((x - qbase) as u64) < ncomp) {
                    if ncomp > 0 { qbase + rng.below(ncomp as usize) as u32 } else { 0 }
                } else {
                    x
                }
            };
            let c = (pickc(rng), pickc(rng), pickc(rng));
            if !comps.contains(&c) && (qbase as u64 + ncomp) < qlimit {
                comps.push(c);
                ncomp += 1;
            }
            toks.push(format!("q:{},{},{}", c.0, c.1, c.2));
            stats.hit("seq_qenc");
        } else if k < 75 {
            toks.push(format!("r:{}", some_id(rng, sim.base, nstr, qbase, ncomp)));
            stats.hit("seq_qdec");
        } else if k < 90 {
            toks.push(format!("t:{}", some_id(rng, sim.base, nstr, qbase, ncomp)));
            stats.hit("seq_decode_term");
        } else {
            toks.push(format!("i:{}", some_id(rng, sim.base, nstr, qbase, ncomp)));
            stats.hit("seq_is_quoted");
        }
    }
    toks.push("Z".into());
    format!("dict seq {}", toks.join(" "))
}

fn gen_mrg(rng: &mut Rng, stats: &mut Stats) -> String {
    let pool = *rng.pick(&[2usize, 3, 5, 8]);
    let mk = |rng: &mut Rng, n: usize| -> Vec<String> { (0..n).map(|_| safe_word(rng, pool)).collect() };
    let na = rng.below(5);
    let nb = rng.below(5);
    let a = mk(rng, na);
    let b = if rng.chance(1, 4) { a.clone() } else { mk(rng, nb) };
    let mut probes = a.clone();
    probes.extend(b.iter().cloned());
    probes.push(safe_word(rng, pool));
    let f = |v: &Vec<String>| if v.is_empty() { ".".to_string() } else { v.iter().map(|s| hex(s)).collect::<Vec<_>>().join(",") };
    stats.hit("mrg");
    format!("dict mrg {} / {} / {}", f(&a), f(&b), f(&probes))
}

impl Prop for C15 {
    fn id(&self) -> &'static str {
        "dict"
    }
    fn cases(&self, tier: Tier) -> usize {
        match tier {
            Tier::Quick => 6000,
            Tier::Thorough => 150000,
        }
    }

    fn exhaustive(&self, tier: Tier, stats: &mut Stats) -> Vec<String> {
        let mut out = Vec::new();
        // (1) every op sequence up to the depth over a tiny alphabet, full dump at the end
        let depth = if tier == Tier::Quick { 4 } else { 5 };
        let q0 = QB;
        let alphabet: Vec<String> = vec![
            format!("e:{}", hex("a")),
            format!("e:{}", hex("b")),
            "q:0,1,0".into(),
            format!("q:{},0,1", q0),
            format!("q:0,1,{}", q0 + 1),
            "d:0".into(),
            "d:1".into(),
            format!("r:{}", q0),
            format!("t:{}", q0 + 1),
        ];
        let mut frontier: Vec<Vec<usize>> = vec![vec![]];
        for _ in 0..depth {
            let mut next = Vec::new();
            for p in &frontier {
                for k in 0..alphabet.len() {
                    // a quoted component must already be allocated (see gen_seq)
                    let nq = p.iter().filter(|x| (2..=4).contains(*x)).collect::<std::collections::BTreeSet<_>>().len() as u32;
                    if (k == 3 && nq < 1) || (k == 4 && nq < 2) {
                        continue;
                    }
                    let mut q = p.clone();
                    q.push(k);
                    next.push(q);
                }
            }
            for p in &next {
                let toks: Vec<&str> = p.iter().map(|k| alphabet[*k].as_str()).collect();
                out.push(format!("dict seq {} t:{} t:{} t:{} Z", toks.join(" "), q0, q0 + 1, q0 + 2));
            }
            frontier = next;
        }
        stats.add("exhaustive_seq", out.len() as u64);
        // (2) every ordered pair of small hand-shaped databases
        let h = |s: &str| hex(s);
        let dbs: Vec<String> = vec![
            "".into(),
            format!("T:{},{},{}", h("a"), h("p"), h("b")),
            format!("T:{},{},{}", h("b"), h("p"), h("a")),
            format!("e:{} e:{} T:{},{},{}", h("zz"), h("b"), h("a"), h("p"), h("b")),
            format!("P:{},{},{},250", h("a"), h("p"), h("b")),
            format!("P:{},{},{},750 e:{}", h("a"), h("p"), h("b"), h("unused")),
            format!("G:{},{},{},{}", h("a"), h("p"), h("b"), h("g")),
            format!("e:{} c:0", h("g")),
            format!("e:{} e:{} c:1", h("x"), h("g")),
            format!("x:({},{},{})", h("a"), h("p"), h("b")),
            format!("x:(({},{},{}),{},{})", h("a"), h("p"), h("b"), h("q"), h("c")),
            format!("e:{} x:({},{},(({},{},{}),{},{})) a:{},0,{},_", h("c"), h("c"), h("q"), h("a"), h("p"), h("b"), h("q"), h("c"), QB + 2, QB + 1),
            format!("e:{} e:{} q:0,1,0 q:{},1,0 a:{},1,{},{} s:{},1,0,125 c:{}", h("p"), h("a"), QB, QB + 1, QB, QB + 1, QB, QB),
            format!("e:{} a:0,0,5,_", h("a")),
        ];
        let n0 = out.len();
        for a in &dbs {
            for b in &dbs {
                out.push(format!("dict union {} / {}", a, b));
                out.push(format!("dict uid {} / {}", a, b));
            }
        }
        stats.add("exhaustive_union_pairs", (out.len() - n0) as u64);
        out
    }

    fn gen(&self, rng: &mut Rng, tier: Tier, _i: usize, stats: &mut Stats) -> String {
        let k = rng.below(100);
        if k < 40 {
            stats.hit("kind_seq");
            gen_seq(rng, tier, stats)
        } else if k < 84 {
            stats.hit("kind_union");
            gen_union(rng, tier, stats, "union")
        } else if k < 94 {
            stats.hit("kind_uid");
            gen_union(rng, tier, stats, "uid")
        } else {
            stats.hit("kind_mrg");
            gen_mrg(rng, stats)
        }
    }

    fn exec(&self, req: &str) -> String {
        let toks: Vec<&str> = req.split_whitespace().collect();
        if toks.len() < 2 || toks[0] != "dict" {
            return "bad-request".into();
        }
        match toks[1] {
            "seq" => exec_seq(&toks[2..]),
            "union" => exec_union(&toks[2..], false),
            "uid" => exec_union(&toks[2..], true),
            "mrg" => exec_mrg(&toks[2..]),
            _ => "bad-request".into(),
        }
    }
}
