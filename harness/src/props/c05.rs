//! C05 — rule materialisation computes exactly the least model of the program.
//! Protocol documented in lean/Kolibrie/Driver/C05.lean.
//!
//!   dl <strategy> <vals> R:<rule> … F:s,p,o …
//!
//! strategy: n = infer_new_facts_naive, s = infer_new_facts_semi_naive, p = infer_new_facts_semi_naive_parallel,
//!           b = infer_new_facts_with_provenance(BooleanProvenance)
//! vals:     one entry per constant id 0..k-1, comma separated: `e` (symbolic term) or an integer (numeric literal)
//! rule:     prem+prem/neg+neg/filter+filter/concl+concl   (`-` = empty section)
//!           pattern `t.t.t`, term `v<n>` | `c<id>`; filter `v<n>.<op>.<rhs>`, op gt|lt|ge|le|eq|ne|xx, rhs `n<int>` | `v<n>`
//! reply:    `[s.p.o;…] n=<facts returned by the first run> r2=<facts returned by a second run>`
use super::{Prop, Stats, Tier};
use crate::proto::*;
use crate::rng::Rng;
use datalog::reasoning::Reasoner;
use shared::provenance::BooleanProvenance;
use shared::rule::{FilterCondition, Rule};
use shared::terms::{Term, TriplePattern};
use shared::triple::Triple;
use std::collections::BTreeSet;

pub struct C05;

// ---- parsing ----------------------------------------------------------------------------------

fn parse_term(s: &str) -> Option<Term> {
    if let Some(r) = s.strip_prefix('v') {
        let n: u32 = r.parse().ok()?;
        Some(Term::Variable(format!("v{}", n)))
    } else if let Some(r) = s.strip_prefix('c') {
        Some(Term::Constant(r.parse().ok()?))
    } else {
        None
    }
}

fn parse_pat(s: &str) -> Option<TriplePattern> {
    let v: Vec<&str> = s.split('.').collect();
    if v.len() != 3 {
        return None;
    }
    Some((parse_term(v[0])?, parse_term(v[1])?, parse_term(v[2])?))
}

fn parse_pats(s: &str) -> Option<Vec<TriplePattern>> {
    if s == "-" {
        return Some(vec![]);
    }
    s.split('+').map(parse_pat).collect()
}

fn parse_filter(s: &str) -> Option<FilterCondition> {
    let v: Vec<&str> = s.split('.').collect();
    if v.len() != 3 {
        return None;
    }
    let var = match parse_term(v[0])? {
        Term::Variable(n) => n,
        _ => return None,
    };
    let op = match v[1] {
        "gt" => ">",
        "lt" => "<",
        "ge" => ">=",
        "le" => "<=",
        "eq" => "=",
        "ne" => "!=",
        "xx" => "~",
        _ => return None,
    };
    let value = if let Some(r) = v[2].strip_prefix('n') {
        let n: i64 = r.parse().ok()?;
        n.to_string()
    } else {
        match parse_term(v[2])? {
            Term::Variable(n) => n,
            _ => return None,
        }
    };
    Some(FilterCondition { variable: var, operator: op.to_string(), value })
}

fn parse_rule(s: &str) -> Option<Rule> {
    let v: Vec<&str> = s.split('/').collect();
    if v.len() != 4 {
        return None;
    }
    let filters = if v[2] == "-" { vec![] } else { v[2].split('+').map(parse_filter).collect::<Option<Vec<_>>>()? };
    Some(Rule { premise: parse_pats(v[0])?, negative_premise: parse_pats(v[1])?, filters, conclusion: parse_pats(v[3])? })
}

/// the lexical form of constant `k`: symbolic `e<k>` or a numeric literal whose f64 value is `v`
/// (made distinct per id by the number of trailing zeros)
fn term_string(k: usize, val: &str) -> Option<String> {
    if val == "e" {
        Some(format!("e{}", k))
    } else {
        let n: i64 = val.parse().ok()?;
        Some(format!("{}.{}", n, "0".repeat(k + 1)))
    }
}

fn show_facts(set: &BTreeSet<(u32, u32, u32)>) -> String {
    let parts: Vec<String> = set.iter().map(|(s, p, o)| format!("{}.{}.{}", s, p, o)).collect();
    format!("[{}]", parts.join(";"))
}

fn run_strategy(r: &mut Reasoner, strat: &str) -> Option<Vec<Triple>> {
    Some(match strat {
        "n" => r.infer_new_facts_naive(),
        "s" => r.infer_new_facts_semi_naive(),
        "p" => r.infer_new_facts_semi_naive_parallel(),
        "b" => r.infer_new_facts_with_provenance(BooleanProvenance).0,
        _ => return None,
    })
}

fn current(r: &Reasoner) -> BTreeSet<(u32, u32, u32)> {
    r.dataset_index.query(None, None, None).into_iter().map(|t| (t.subject, t.predicate, t.object)).collect()
}

fn exec_req(req: &str) -> Option<String> {
    let toks: Vec<&str> = req.split_whitespace().collect();
    if toks.len() < 3 || toks[0] != "dl" {
        return None;
    }
    let strat = toks[1];
    let mut r = Reasoner::new();
    {
        let mut d = r.dictionary.write().unwrap();
        for (k, v) in toks[2].split(',').enumerate() {
            let id = d.encode(&term_string(k, v)?);
            if id as usize != k {
                return None;
            }
        }
    }
    let nconst = toks[2].split(',').count() as u32;
    let mut rules = Vec::new();
    let mut facts = Vec::new();
    for t in &toks[3..] {
        if let Some(x) = t.strip_prefix("R:") {
            let rule = parse_rule(x)?;
            let pats = rule.premise.iter().chain(rule.negative_premise.iter()).chain(rule.conclusion.iter());
            for (a, b, c) in pats {
                for t in [a, b, c] {
                    if let Term::Constant(id) = t {
                        if *id >= nconst {
                            return None;
                        }
                    }
                }
            }
            rules.push(rule);
        } else if let Some(x) = t.strip_prefix("F:") {
            let v = nat_list(x, ',')?;
            if v.len() != 3 || v.iter().any(|c| *c >= nconst) {
                return None;
            }
            facts.push(Triple { subject: v[0], predicate: v[1], object: v[2] });
        } else {
            return None;
        }
    }
    for f in facts {
        r.insert_ground_triple(f);
    }
    for rule in rules {
        if r.try_add_rule(rule).is_err() {
            return Some("rejected".to_string());
        }
    }
    let before = current(&r);
    let ret = run_strategy(&mut r, strat)?;
    let after = current(&r);
    // the returned vector must be exactly the facts that were added, each once
    let ret_set: BTreeSet<(u32, u32, u32)> = ret.iter().map(|t| (t.subject, t.predicate, t.object)).collect();
    let added: BTreeSet<(u32, u32, u32)> = after.difference(&before).cloned().collect();
    let ret_ok = ret_set == added && ret_set.len() == ret.len();
    let second = run_strategy(&mut r, strat)?;
    let mut out = format!("{} n={} r2={}", show_facts(&after), ret.len(), second.len());
    if !ret_ok {
        out.push_str(" returned-vector-differs-from-added-facts");
    }
    Some(out)
}

// ---- generation -------------------------------------------------------------------------------

struct Uni {
    ents: Vec<u32>,   // entity ids
    low: Vec<u32>,    // predicates of the lower stratum (base facts, negation-free rules)
    up: Vec<u32>,     // predicates only derived by NOT-rules and the rules that depend on them
    vals: Vec<String>,
}

fn uni(rng: &mut Rng, with_up: bool, big: bool) -> Uni {
    let ne = if big { rng.range(2, 6) } else { rng.range(2, 4) };
    let nl = rng.range(1, 3);
    let nu = if with_up { rng.range(1, 2) } else { 0 };
    let mut vals = Vec::new();
    for _ in 0..ne {
        // about half of the entities are numeric literals (small range: equal values on distinct ids happen)
        vals.push(if rng.chance(1, 2) { (rng.below(7) as i64 - 1).to_string() } else { "e".to_string() });
    }
    for _ in 0..nl + nu {
        vals.push(if rng.chance(1, 8) { (rng.below(7) as i64 - 1).to_string() } else { "e".to_string() });
    }
    Uni {
        ents: (0..ne as u32).collect(),
        low: (ne as u32..(ne + nl) as u32).collect(),
        up: ((ne + nl) as u32..(ne + nl + nu) as u32).collect(),
        vals,
    }
}

fn tvar(v: usize) -> String {
    format!("v{}", v)
}
fn tconst(c: u32) -> String {
    format!("c{}", c)
}

/// a premise pattern; `preds` = allowed constant predicates, `varpred` = chance (in %) of a variable predicate
fn gen_premise(rng: &mut Rng, u: &Uni, j: usize, nv: usize, preds: &[u32], varpred: usize, stats: &mut Stats) -> String {
    let pick_var = |r: &mut Rng, prefer: usize| if r.chance(2, 3) { prefer.min(nv - 1) } else { r.below(nv) };
    let s = if rng.chance(4, 5) { tvar(pick_var(rng, j)) } else { stats.hit("premise_const_subject"); tconst(*rng.pick(&u.ents)) };
    let o = if rng.chance(3, 4) { tvar(pick_var(rng, j + 1)) } else { stats.hit("premise_const_object"); tconst(*rng.pick(&u.ents)) };
    let p = if rng.below(100) < varpred {
        stats.hit("premise_var_predicate");
        tvar(rng.below(nv + 1))
    } else {
        tconst(*rng.pick(preds))
    };
    if s == o && s.starts_with('v') {
        stats.hit("premise_repeated_var_s_o");
    }
    if p == s || p == o {
        stats.hit("premise_repeated_var_with_predicate");
    }
    format!("{}.{}.{}", s, p, o)
}

fn pat_vars(p: &str) -> Vec<String> {
    p.split('.').filter(|t| t.starts_with('v')).map(|t| t.to_string()).collect()
}

fn gen_conclusion(rng: &mut Rng, u: &Uni, vars: &[String], preds: &[u32], varpred: usize, stats: &mut Stats) -> String {
    let ent_term = |r: &mut Rng| if !vars.is_empty() && r.chance(5, 6) { r.pick(vars).clone() } else { tconst(*r.pick(&u.ents)) };
    let s = ent_term(rng);
    let o = ent_term(rng);
    let p = if !vars.is_empty() && rng.below(100) < varpred {
        stats.hit("conclusion_var_predicate");
        rng.pick(vars).clone()
    } else {
        tconst(*rng.pick(preds))
    };
    format!("{}.{}.{}", s, p, o)
}

fn gen_filter(rng: &mut Rng, vars: &[String], stats: &mut Stats) -> String {
    let ops = ["gt", "lt", "ge", "le", "eq", "ne", "xx"];
    let v = rng.pick(vars).clone();
    let nops = if rng.chance(1, 10) { 7 } else { 6 };
    let op = ops[rng.below(nops)];
    let rhs = if rng.chance(1, 3) {
        stats.hit("filter_var_rhs");
        rng.pick(vars).clone()
    } else {
        stats.hit("filter_num_rhs");
        format!("n{}", rng.below(8) as i64 - 2)
    };
    format!("{}.{}.{}", v, op, rhs)
}

fn join(v: &[String]) -> String {
    if v.is_empty() { "-".to_string() } else { v.join("+") }
}

/// a negation-free rule
fn gen_pos_rule(rng: &mut Rng, u: &Uni, maxprem: usize, prem_preds: &[u32], concl_preds: &[u32], varpred: usize,
                filters: bool, stats: &mut Stats) -> String {
    let np = match rng.below(100) {
        0..=24 => 1,
        25..=64 => 2,
        65..=84 => 3,
        _ => 4,
    }
    .min(maxprem);
    stats.hit(&format!("rule_premises_{}", np));
    let nv = np + 1;
    let prems: Vec<String> = (0..np).map(|j| gen_premise(rng, u, j, nv, prem_preds, varpred, stats)).collect();
    let mut vars: Vec<String> = prems.iter().flat_map(|p| pat_vars(p)).collect();
    vars.sort();
    vars.dedup();
    let nc = if rng.chance(1, 4) { rng.range(2, 3) } else { 1 };
    if nc > 1 {
        stats.hit("rule_several_conclusions");
    }
    let concl: Vec<String> = (0..nc).map(|_| gen_conclusion(rng, u, &vars, concl_preds, varpred / 2, stats)).collect();
    let mut fs = Vec::new();
    if filters && !vars.is_empty() && rng.chance(1, 3) {
        for _ in 0..rng.range(1, 2) {
            fs.push(gen_filter(rng, &vars, stats));
        }
        stats.hit("rule_with_filters");
    }
    format!("R:{}/-/{}/{}", join(&prems), join(&fs), join(&concl))
}

/// a NOT-rule: premises over `prem_preds`, negated atoms over the lower predicates, conclusions over the upper ones
fn gen_neg_rule(rng: &mut Rng, u: &Uni, prem_preds: &[u32], varpred: usize, stats: &mut Stats) -> String {
    let np = rng.range(1, 3);
    let nv = np + 1;
    let prems: Vec<String> = (0..np).map(|j| gen_premise(rng, u, j, nv, prem_preds, varpred, stats)).collect();
    let mut vars: Vec<String> = prems.iter().flat_map(|p| pat_vars(p)).collect();
    vars.sort();
    vars.dedup();
    let nn = rng.range(1, 2);
    // the negated atom's predicate is sometimes a variable (bound by a positive premise, hence safe): preferably one that
    // stands in predicate position there
    let pvars: Vec<String> = prems.iter().filter_map(|p| p.split('.').nth(1).filter(|t| t.starts_with('v')).map(|t| t.to_string())).collect();
    let negs: Vec<String> = (0..nn)
        .map(|_| {
            let a = gen_conclusion(rng, u, &vars, &u.low, if pvars.is_empty() { 10 } else { 0 }, stats);
            if !pvars.is_empty() && rng.chance(1, 2) {
                stats.hit("negated_atom_with_variable_predicate");
                let parts: Vec<&str> = a.split('.').collect();
                format!("{}.{}.{}", parts[0], rng.pick(&pvars), parts[2])
            } else {
                a
            }
        })
        .collect();
    let nc = rng.range(1, 2);
    let concl: Vec<String> = (0..nc).map(|_| gen_conclusion(rng, u, &vars, &u.up, 0, stats)).collect();
    let mut fs = Vec::new();
    if !vars.is_empty() && rng.chance(1, 4) {
        fs.push(gen_filter(rng, &vars, stats));
    }
    stats.hit("rule_with_negation");
    format!("R:{}/{}/{}/{}", join(&prems), join(&negs), join(&fs), join(&concl))
}

/// rules that differ from an existing rule in exactly one of their four parts (another filter, another conclusion, one more
/// premise, another negated atom): anything that identifies a rule by a subset of its parts confuses them
fn add_sibling_rules(rng: &mut Rng, rules: &mut Vec<String>, stats: &mut Stats) {
    if rules.is_empty() || !rng.chance(1, 4) {
        return;
    }
    let k = rng.below(rules.len());
    let body = match rules[k].strip_prefix("R:") {
        Some(b) => b.to_string(),
        None => return,
    };
    let parts: Vec<&str> = body.split('/').collect();
    if parts.len() != 4 {
        return;
    }
    let mut vars: Vec<String> = parts[0].split('+').flat_map(|p| pat_vars(p)).collect();
    vars.sort();
    vars.dedup();
    if vars.is_empty() {
        return;
    }
    let mut p: Vec<String> = parts.iter().map(|x| x.to_string()).collect();
    match rng.below(3) {
        0 | 1 => {
            // same body and head, different filter
            let f = gen_filter(rng, &vars, stats);
            if p[2] == "-" || rng.chance(1, 2) {
                if p[2] == f {
                    return;
                }
                p[2] = f;
            } else {
                p[2] = format!("{}+{}", p[2], f);
            }
            stats.hit("sibling_rule_other_filter");
        }
        _ => {
            // same body and filter, the conclusions in another order or one conclusion dropped
            let mut cs: Vec<&str> = parts[3].split('+').collect();
            if cs.len() < 2 {
                return;
            }
            if rng.chance(1, 2) {
                cs.reverse();
            } else {
                cs.remove(0);
            }
            p[3] = cs.join("+");
            stats.hit("sibling_rule_other_conclusions");
        }
    }
    let pos = rng.below(rules.len() + 1);
    rules.insert(pos, format!("R:{}", p.join("/")));
}

fn gen_facts(rng: &mut Rng, u: &Uni, max: usize, stats: &mut Stats) -> Vec<String> {
    let n = rng.range(0, max);
    let all: Vec<u32> = (0..u.vals.len() as u32).collect();
    let mut out = Vec::new();
    for _ in 0..n {
        let odd = rng.chance(1, 12); // a fact whose predicate is an entity / subject is a predicate …
        let (s, p, o) = if odd {
            stats.hit("fact_any_position");
            (*rng.pick(&all), *rng.pick(&all), *rng.pick(&all))
        } else {
            (*rng.pick(&u.ents), *rng.pick(&u.low), *rng.pick(&u.ents))
        };
        out.push(format!("F:{},{},{}", s, p, o));
    }
    out
}

/// rename every constant by a permutation of the identifiers (the value table moves with them): the program is the same
/// up to the dictionary's encoding order, which changes every internal sort and hash order
fn permute_ids(rng: &mut Rng, vals: &[String], rules: &mut [String], facts: &mut [String]) -> Vec<String> {
    let n = vals.len();
    let mut perm: Vec<usize> = (0..n).collect();
    rng.shuffle(&mut perm);
    let mut nv = vec![String::new(); n];
    for (old, new) in perm.iter().enumerate() {
        nv[*new] = vals[old].clone();
    }
    let map_const = |tok: &str| -> String {
        // a term is `c<k>`, `v<k>`, `n<int>` or an operator word
        if let Some(k) = tok.strip_prefix('c').and_then(|x| x.parse::<usize>().ok()) {
            if k < n {
                return format!("c{}", perm[k]);
            }
        }
        tok.to_string()
    };
    for r in rules.iter_mut() {
        let body = r.strip_prefix("R:").unwrap_or(r).to_string();
        let parts: Vec<String> = body
            .split('/')
            .map(|part| {
                part.split('+').map(|pat| pat.split('.').map(|t| map_const(t)).collect::<Vec<_>>().join(".")).collect::<Vec<_>>().join("+")
            })
            .collect();
        *r = format!("R:{}", parts.join("/"));
    }
    for f in facts.iter_mut() {
        if let Some(x) = f.strip_prefix("F:") {
            let v: Vec<String> = x.split(',').map(|k| k.parse::<usize>().ok().filter(|k| *k < n).map(|k| perm[k].to_string()).unwrap_or_else(|| k.to_string())).collect();
            *f = format!("F:{}", v.join(","));
        }
    }
    nv
}

fn assemble(rng: &mut Rng, strat: &str, u: &Uni, mut rules: Vec<String>, mut facts: Vec<String>) -> String {
    let mut vals = u.vals.clone();
    if rng.chance(1, 3) {
        vals = permute_ids(rng, &u.vals, &mut rules, &mut facts);
    }
    let u = &Uni { ents: u.ents.clone(), low: u.low.clone(), up: u.up.clone(), vals };
    rng.shuffle(&mut rules);
    rng.shuffle(&mut facts);
    let mut body = rules;
    body.extend(facts);
    rng.shuffle(&mut body); // rules and facts interleaved: insertion order must not matter
    format!("dl {} {} {}", strat, u.vals.join(","), body.join(" ")).trim_end().to_string()
}

impl Prop for C05 {
    fn id(&self) -> &'static str {
        "dl"
    }
    fn cases(&self, tier: Tier) -> usize {
        match tier {
            Tier::Quick => 2400,
            Tier::Thorough => 100000,
        }
    }

    /// every single-premise rule shape over {v0, v1, c0, c1} x {c2, v2} with every safe single conclusion over the
    /// same terms, on a fixed fact set, under all four strategies; thorough adds every pair of premise shapes
    fn exhaustive(&self, tier: Tier, stats: &mut Stats) -> Vec<String> {
        let so = ["v0", "v1", "c0", "c1"];
        let pr = ["c2", "v2", "v0"];
        let mut pats = Vec::new();
        for s in so {
            for p in pr {
                for o in so {
                    pats.push(format!("{}.{}.{}", s, p, o));
                }
            }
        }
        let facts = "F:0,2,1 F:1,2,0 F:1,2,1 F:0,3,0 F:2,2,2";
        let mut out = Vec::new();
        for (k, prem) in pats.iter().enumerate() {
            let vars = pat_vars(prem);
            let mut terms: Vec<String> = vars.clone();
            terms.sort();
            terms.dedup();
            terms.push("c0".into());
            let mut cps = terms.clone();
            cps.push("c3".into());
            let mut j = 0;
            for s in &terms {
                for p in &cps {
                    for o in &terms {
                        j += 1;
                        if tier == Tier::Quick && (j + k) % 4 != 0 {
                            continue;
                        }
                        for st in ["n", "s", "p", "b"] {
                            out.push(format!("dl {} e,e,e,e R:{}/-/-/{}.{}.{} {}", st, prem, s, p, o, facts));
                        }
                    }
                }
            }
        }
        stats.add("exhaustive_one_premise", out.len() as u64);
        if tier == Tier::Thorough {
            let n0 = out.len();
            for a in &pats {
                for b in &pats {
                    // a safe head: first and last variable of the body (or the constant c0)
                    let mut vars = pat_vars(a);
                    vars.extend(pat_vars(b));
                    let hs = vars.first().cloned().unwrap_or_else(|| "c0".to_string());
                    let ho = vars.last().cloned().unwrap_or_else(|| "c0".to_string());
                    for st in ["n", "s", "p", "b"] {
                        out.push(format!("dl {} e,e,e,e R:{}+{}/-/-/{}.c3.{} {}", st, a, b, hs, ho, facts));
                    }
                }
            }
            stats.add("exhaustive_two_premises", (out.len() - n0) as u64);
        }
        out
    }

    fn gen(&self, rng: &mut Rng, tier: Tier, _i: usize, stats: &mut Stats) -> String {
        let big = tier == Tier::Thorough && rng.chance(1, 3);
        let (maxf, maxr) = if big { (24, 6) } else { (12, 4) };
        let strat = *rng.pick(&["n", "s", "p", "b"]);
        let shape = rng.below(100);
        if _i % (if tier == Tier::Quick { 300 } else { 3000 }) == 11 {
            // more facts than one work unit of the parallel rule join (chunks of >= 1000 matching facts per premise):
            // every fact of every chunk, including the last partial one, must produce its bindings
            stats.hit("shape_large_fact_set");
            stats.hit(&format!("strategy_{}", strat));
            let ne = rng.range(40, 60);
            let mut vals: Vec<String> = (0..ne).map(|_| "e".to_string()).collect();
            vals.extend(["e".to_string(), "e".to_string(), "e".to_string()]);
            let u = Uni { ents: (0..ne as u32).collect(), low: (ne as u32..ne as u32 + 3).collect(), up: vec![], vals };
            let n = *rng.pick(&[1001usize, 1500, 1999, 2000, 2001, 2600]) + rng.below(3);
            let mut set = std::collections::BTreeSet::new();
            while set.len() < n.min(ne * ne) {
                set.insert((rng.below(ne) as u32, u.low[0], rng.below(ne) as u32));
            }
            let mut facts: Vec<String> = set.iter().map(|(a, b, c)| format!("F:{},{},{}", a, b, c)).collect();
            for _ in 0..rng.range(0, 5) {
                facts.push(format!("F:{},{},{}", rng.below(ne), u.low[1], rng.below(ne)));
            }
            let mut rules = vec![format!("R:v0.c{}.v1/-/-/v1.c{}.v0", u.low[0], u.low[1])];
            if strat != "p" && rng.chance(1, 2) {
                stats.hit("large_with_join_rule");
                rules.push(format!("R:v0.c{}.v1+v1.c{}.v2/-/-/v0.c{}.v2", u.low[1], u.low[0], u.low[2]));
            }
            return assemble(rng, strat, &u, rules, facts);
        }
        if shape < 30 {
            // the fragment every strategy claims to handle: 1-2 premises, constant predicates, no filters
            stats.hit("shape_core");
            stats.hit(&format!("strategy_{}", strat));
            let u = uni(rng, false, big);
            let nr = rng.range(1, maxr);
            let rules: Vec<String> = (0..nr).map(|_| gen_pos_rule(rng, &u, 2, &u.low, &u.low, 0, false, stats)).collect();
            let facts = gen_facts(rng, &u, maxf, stats);
            assemble(rng, strat, &u, rules, facts)
        } else if shape < 70 {
            // general positive programs
            stats.hit("shape_general");
            // the parallel strategy is known to fail on most of these: sample it less often here
            let strat = if strat == "p" && rng.chance(2, 3) { *rng.pick(&["n", "s", "b"]) } else { strat };
            stats.hit(&format!("strategy_{}", strat));
            let u = uni(rng, false, big);
            let nr = rng.range(1, maxr);
            let varpred = if rng.chance(1, 2) { 25 } else { 0 };
            let mut rules: Vec<String> = (0..nr).map(|_| gen_pos_rule(rng, &u, 4, &u.low, &u.low, varpred, true, stats)).collect();
            add_sibling_rules(rng, &mut rules, stats);
            let facts = gen_facts(rng, &u, maxf - 2, stats);
            assemble(rng, strat, &u, rules, facts)
        } else if shape < 96 {
            // one stratum of negation
            stats.hit("shape_negation");
            let strat = if rng.chance(3, 5) { "b" } else { strat };
            stats.hit(&format!("strategy_{}", strat));
            let u = uni(rng, true, big);
            let mut rules = Vec::new();
            for _ in 0..rng.range(0, 2) {
                rules.push(gen_pos_rule(rng, &u, 3, &u.low, &u.low, 0, true, stats));
            }
            let feeds = rng.chance(1, 6);
            for _ in 0..rng.range(1, 2) {
                if feeds && rng.chance(1, 2) {
                    // NOT-rule reading upper predicates / any predicate: single negative pass is not enough
                    let mut pp = u.low.clone();
                    pp.extend(u.up.iter());
                    rules.push(gen_neg_rule(rng, &u, &pp, 30, stats));
                } else {
                    let vp = if rng.chance(1, 3) { 40 } else { 0 };
                    rules.push(gen_neg_rule(rng, &u, &u.low, vp, stats));
                }
            }
            if feeds {
                stats.hit("negation_heads_feed_rules");
                let mut pp = u.low.clone();
                pp.extend(u.up.iter());
                rules.push(gen_pos_rule(rng, &u, 2, &pp, &u.up, 20, false, stats));
            }
            let facts = gen_facts(rng, &u, maxf - 2, stats);
            assemble(rng, strat, &u, rules, facts)
        } else {
            // malformed: unsafe negation must be rejected by try_add_rule (check_rule_safety)
            stats.hit("shape_unsafe_negation");
            stats.hit(&format!("strategy_{}", strat));
            let u = uni(rng, true, big);
            let mut rules = vec![gen_pos_rule(rng, &u, 2, &u.low, &u.low, 0, false, stats)];
            let prem = gen_premise(rng, &u, 0, 2, &u.low, 0, stats);
            let fresh = format!("v{}", rng.range(5, 9));
            let neg = match rng.below(3) {
                0 => format!("{}.c{}.v0", fresh, u.low[0]),
                1 => format!("v0.{}.v1", fresh),
                _ => format!("c0.c{}.{}", u.low[0], fresh),
            };
            rules.push(format!("R:{}/{}/-/c0.c{}.c0", prem, neg, u.up[0]));
            let facts = gen_facts(rng, &u, 6, stats);
            assemble(rng, strat, &u, rules, facts)
        }
    }

    fn exec(&self, req: &str) -> String {
        exec_req(req).unwrap_or_else(|| "bad-request".to_string())
    }
}
