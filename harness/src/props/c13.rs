//! C13 — loading a document adds exactly its triples, whatever its size or prior content.
//! Protocol documented in lean/Kolibrie/Driver/C13.lean.
use super::c14::{build_db, lex_quads, parse_quad_tok, show_quad_tok, silence_stderr, QuadT, Term};
use super::{Prop, Stats, Tier};
use crate::proto::*;
use crate::rng::Rng;
use kolibrie::sparql_database::SparqlDatabase;
use std::io::Write;

pub struct C13;

fn with_sp(v: &[String]) -> String {
    if v.is_empty() {
        String::new()
    } else {
        format!(" {}", v.join(" "))
    }
}

fn load(db: &mut SparqlDatabase, fmt: &str, text: &str) {
    match fmt {
        "nt" => db.parse_ntriples_and_add(text),
        "nq" => db.parse_nquads_and_add(text),
        "ttl" => db.parse_turtle(text),
        _ => db.parse_n3(text),
    }
}

/// RDF/XML: the triple the k-th resource of the generated family contributes (subject, predicate, object)
fn xml_triple(i: usize) -> (String, String, String) {
    let o = if i % 3 == 0 { format!("http://e/r{}", (i * 7) % 1000) } else { format!("v{} x", i) };
    (format!("http://e/r{}", i), format!("http://e/p{}", i % 5), o)
}
/// the document holding resources 0..k in the layout the loader supports (rdf:Description / rdf:about, property elements
/// with text or rdf:resource); `per` property elements per Description
fn xml_doc(k: usize, per: usize) -> String {
    let mut d = String::from("<?xml version=\"1.0\"?>\n<rdf:RDF xmlns:rdf=\"http://www.w3.org/1999/02/22-rdf-syntax-ns#\" xmlns:ex=\"http://e/\">\n");
    let mut i = 0;
    while i < k {
        // one Description per subject: every resource is its own subject, so `per` only varies the layout
        let (s, _, _) = xml_triple(i);
        d.push_str(&format!("  <rdf:Description rdf:about=\"{}\">\n", s));
        let (_, p, o) = xml_triple(i);
        let q = p.trim_start_matches("http://e/");
        if i % 3 == 0 {
            d.push_str(&format!("    <ex:{} rdf:resource=\"{}\"/>\n", q, o));
        } else if per % 2 == 0 {
            d.push_str(&format!("    <ex:{}>{}</ex:{}>\n", q, o, q));
        } else {
            d.push_str(&format!("    <ex:{}>\n      {}\n    </ex:{}>\n", q, o, q));
        }
        d.push_str("  </rdf:Description>\n");
        i += 1;
    }
    d.push_str("</rdf:RDF>\n");
    d
}
/// `load xml <n> <extra> <layout> <prior>`: load the n-resource document, then (extra > 0) the (n+extra)-resource document
/// into the same database; prior = 0 empty | 1 the first half of the family already stored | 2 unrelated content
fn exec_xml(toks: &[&str]) -> String {
    if toks.len() != 6 {
        return "bad-request".into();
    }
    let nums: Vec<usize> = match toks[2..].iter().map(|t| t.parse().ok()).collect::<Option<Vec<usize>>>() {
        Some(v) => v,
        None => return "bad-request".into(),
    };
    let (n, extra, layout, prior) = (nums[0], nums[1], nums[2], nums[3]);
    let r = std::panic::catch_unwind(std::panic::AssertUnwindSafe(|| {
        let mut db = SparqlDatabase::new();
        match prior {
            1 => {
                let doc: String = (0..n / 2).map(|i| { let (s, p, o) = xml_triple(i); format!("{} {} {} .\n", cross_term(&s), cross_term(&p), cross_term(&o)) }).collect();
                db.parse_ntriples_and_add(&doc);
            }
            2 => db.parse_ntriples_and_add("<urn:x> <urn:y> <urn:z> .\n<http://e/p1> <http://e/r1> \"v1 x\" .\n"),
            _ => {}
        }
        db.parse_rdf(&xml_doc(n, layout));
        if extra > 0 {
            db.parse_rdf(&xml_doc(n + extra, layout));
        }
        let qs = lex_quads(&db);
        let mut sum: u64 = 0;
        for q in &qs {
            sum = sum.wrapping_add(fnv(q));
        }
        format!("n={} sum={}", qs.len(), sum)
    }));
    r.unwrap_or_else(|_| "panic".into())
}

fn show_set(qs: &[String]) -> String {
    format!("n={}{}", qs.len(), with_sp(qs))
}

/// the harness' own plain writer for `cross` (mirrors Driver/C13.crossTerm)
fn cross_term(s: &str) -> String {
    if s.contains(':') {
        format!("<{}>", s)
    } else {
        format!("\"{}\"", s)
    }
}

fn plain(t: &Term) -> String {
    match t {
        Term::Plain(s) => s.clone(),
        _ => String::new(),
    }
}

// ------------------------------------------------------------------------------------------------ documents

fn obj_text(rng: &mut Rng, i: usize, distinct: bool, stats: &mut Stats) -> String {
    if distinct {
        return format!("\"{}v\"", i);
    }
    if rng.chance(1, 7) {
        // punctuation that is syntax elsewhere in the line, inside a term
        stats.hit("obj_tricky_content");
        let lits = ["Approved. #1 choice", "a . b", "x # y", "semi; colon", "com, ma", "<angle>", "at @en", "hat ^^ hat", "_:b", "dot.", "#", " lead", "trail ", "tab\\tsep", "a .# b"];
        let iris = ["http://e/spec/v1.#intro", "http://e/a#b", "http://e/a;b", "http://e/a,b", "http://e/q?x=1&y=2", "http://e/p.", "http://e/%20x", "http://e/~u"];
        return if rng.chance(1, 2) { format!("\"{}\"", rng.pick(&lits)) } else { format!("<{}>", rng.pick(&iris)) };
    }
    match rng.below(6) {
        0 => {
            stats.hit("obj_iri");
            format!("<http://e/o{}>", rng.below(6))
        }
        1 => {
            stats.hit("obj_lit_escaped");
            "\"a \\\"q\\\" \\\\ \\n b\"".to_string()
        }
        2 => {
            stats.hit("obj_lit_lang_or_dt");
            if rng.chance(1, 2) { "\"x\"@en".to_string() } else { "\"5\"^^<http://www.w3.org/2001/XMLSchema#integer>".to_string() }
        }
        _ => {
            stats.hit("obj_lit_plain");
            format!("\"{}v\"", rng.below(8))
        }
    }
}

/// a document of `n` statements in the line-oriented subset of the format
fn document(rng: &mut Rng, fmt: &str, n: usize, stats: &mut Stats) -> String {
    let distinct = n > 40;
    let mut out = String::new();
    let prefixed = (fmt == "ttl" || fmt == "n3") && rng.chance(1, 2);
    if prefixed {
        stats.hit("doc_with_prefix");
        out.push_str("@prefix ex: <http://e/> .\n");
    }
    for i in 0..n {
        if !distinct && rng.chance(1, 12) {
            out.push_str(if rng.chance(1, 2) { "\n" } else { "# a comment line\n" });
        }
        // the same prefix label re-bound mid-document (two concatenated files): names written before and after the
        // re-binding are the same text but different IRIs
        if prefixed && !distinct && n >= 2 && i == n / 2 && rng.chance(1, 3) {
            stats.hit("prefix_rebound_mid_document");
            out.push_str("@prefix ex: <http://e2/> .\n");
        }
        // a second prefix declared in the middle of a large document: only the chunk that sees it knows it
        if prefixed && distinct && i == n / 2 {
            out.push_str("@prefix ey: <http://y/> .\n");
        }
        let s = if distinct { i % 50 } else { rng.below(5) };
        let p = if distinct { i % 7 } else { rng.below(3) };
        let (st, pt) = if prefixed && (i > n / 2 || !distinct) && rng.chance(1, 2) {
            let pre = if distinct && i > n / 2 { "ey" } else { "ex" };
            (format!("{}:s{}", pre, s), format!("ex:p{}", p))
        } else {
            (format!("<http://e/s{}>", s), format!("<http://e/p{}>", p))
        };
        let o = obj_text(rng, i, distinct, stats);
        match fmt {
            "nq" if !distinct && rng.chance(1, 8) => {
                // a graph that describes itself: the graph name is also the subject (in a fresh database it is then the
                // very first term the dictionary sees)
                stats.hit("nq_self_describing_graph");
                let g = rng.below(3);
                out.push_str(&format!("<http://e/g{}> {} {} <http://e/g{}> .\n", g, pt, o, g));
            }
            "nq" if rng.chance(1, 3) => {
                stats.hit("nq_named_graph");
                out.push_str(&format!("{} {} {} <http://e/g{}> .\n", st, pt, o, rng.below(3)));
            }
            "ttl" | "n3" if !distinct && rng.chance(1, 6) => {
                stats.hit("stmt_semicolon_list");
                let o2 = obj_text(rng, i, false, stats);
                if fmt == "n3" && rng.chance(1, 2) {
                    stats.hit("n3_multiline_statement");
                    out.push_str(&format!("{} {} {} ;\n   <http://e/p9> {} .\n", st, pt, o, o2));
                } else {
                    out.push_str(&format!("{} {} {} ; <http://e/p9> {} .\n", st, pt, o, o2));
                }
            }
            "ttl" | "n3" if !distinct && rng.chance(1, 8) => {
                stats.hit("stmt_comma_list");
                let o2 = obj_text(rng, i, false, stats);
                out.push_str(&format!("{} {} {} , {} .\n", st, pt, o, o2));
            }
            "nt" if !distinct && rng.chance(1, 15) => {
                stats.hit("nt_a_shorthand");
                out.push_str(&format!("{} a <http://e/C> .\n", st));
            }
            _ => out.push_str(&format!("{} {} {} .\n", st, pt, o)),
        }
    }
    out
}

fn prior_quads(rng: &mut Rng, stats: &mut Stats) -> Vec<QuadT> {
    let p = |s: &str| Term::Plain(s.to_string());
    match rng.below(4) {
        0 => {
            stats.hit("prior_empty");
            vec![]
        }
        1 => {
            stats.hit("prior_overlapping_vocabulary");
            let n = rng.range(1, 4);
            (0..n)
                .map(|i| (p(&format!("http://e/s{}", rng.below(5))), p(&format!("http://e/p{}", rng.below(3))), p(&format!("{}v", i)), None))
                .collect()
        }
        2 => {
            stats.hit("prior_disjoint_vocabulary");
            let n = rng.range(1, 4);
            (0..n).map(|i| (p(&format!("urn:x:{}", i)), p("urn:y"), p(&format!("prior {}", i)), if rng.chance(1, 3) { Some(p("urn:g")) } else { None })).collect()
        }
        _ => {
            stats.hit("prior_quoted_terms");
            let q = Term::Quoted(Box::new(p("http://e/s1")), Box::new(p("http://e/p1")), Box::new(p("http://e/o1")));
            vec![(q, p("http://e/src"), p("http://e/doc"), None), (p("http://e/s0"), p("http://e/p0"), p("0v"), None)]
        }
    }
}

const MUT_CHARS: &[&str] = &["\"", "\\", "<", ">", " ", ".", "^", "@", ";", ",", "#", "a", ":", "\n", "\u{e9}", "_:", "<<", ">>"];

fn mutate(rng: &mut Rng, text: &str) -> String {
    let mut cs: Vec<char> = text.chars().collect();
    for _ in 0..rng.range(1, 3) {
        if cs.is_empty() {
            break;
        }
        let pos = rng.below(cs.len());
        match rng.below(3) {
            0 => {
                cs.remove(pos);
            }
            1 => {
                for (k, c) in rng.pick(MUT_CHARS).chars().enumerate() {
                    cs.insert(pos + k, c);
                }
            }
            _ => cs[pos] = rng.pick(MUT_CHARS).chars().next().unwrap(),
        }
    }
    cs.into_iter().collect()
}

const FMTS: [&str; 4] = ["nt", "n3", "ttl", "nq"];

impl Prop for C13 {
    fn id(&self) -> &'static str {
        "load"
    }
    fn cases(&self, tier: Tier) -> usize {
        match tier {
            Tier::Quick => 1200,
            Tier::Thorough => 20000,
        }
    }

    /// documents whose sizes straddle the chunk boundary × prior contents × formats (× pool sizes in the thorough tier)
    fn exhaustive(&self, tier: Tier, stats: &mut Stats) -> Vec<String> {
        let mut out = Vec::new();
        let sizes: &[usize] = &[0, 1, 999, 1000, 1001, 2500];
        let mut k = 0u64;
        for &n in sizes {
            for fmt in FMTS {
                if n > 1001 && fmt != "nt" && fmt != "n3" && tier == Tier::Quick {
                    continue;
                }
                let priors: &[usize] = if tier == Tier::Quick && n > 1 { &[0] } else { &[0, 1, 2] };
                for &pk in priors {
                    k += 1;
                    let mut rng = Rng::fork(7, "load-exhaustive", k);
                    let doc = document(&mut rng, fmt, n, stats);
                    let p = |s: &str| Term::Plain(s.to_string());
                    let prior: Vec<QuadT> = match pk {
                        0 => vec![],
                        1 => vec![(p("http://e/s1"), p("http://e/p1"), p("1v"), None)],
                        _ => vec![(p("urn:x"), p("urn:y"), p("urn:z"), None)],
                    };
                    let threads = if tier == Tier::Thorough { [0, 1, 2, 7, 16][(k % 5) as usize] } else if n == 2500 { 2 } else { 0 };
                    let toks: Vec<String> = prior.iter().map(show_quad_tok).collect();
                    out.push(format!("load {} {} {}{}", fmt, threads, hex(&doc), with_sp(&toks)));
                    stats.hit(&format!("boundary_doc_{}_lines", n));
                }
            }
        }
        // RDF/XML: documents around the 8192-triple batch of the threaded loader, re-loaded with a few more resources, with
        // prior contents that already hold part of the document; one document larger than (worker threads x batch)
        let cpus = std::thread::available_parallelism().map(|n| n.get()).unwrap_or(16);
        let mut xml: Vec<(usize, usize)> = vec![(0, 0), (1, 0), (5, 2), (8191, 0), (8192, 1), (8193, 100)];
        xml.push((cpus * 8192 + 10, 100));
        if tier == Tier::Thorough {
            xml.extend([(16384, 0), (16385, 8192), (2 * cpus * 8192, 1), (cpus * 8192, 0)]);
        }
        for (n, extra) in xml {
            for prior in 0..3usize {
                if tier == Tier::Quick && n > 10000 && prior == 2 {
                    continue;
                }
                out.push(format!("load xml {} {} {} {}", n, extra, (n + prior) % 2, prior));
                stats.hit("rdfxml_generated_history");
            }
        }
        // statements far longer than any I/O or work-splitting window (a WKT geometry, a base64 literal, a long IRI)
        let lens: &[usize] = if tier == Tier::Quick { &[70_000] } else { &[65_535, 65_536, 70_000] };
        for &len in lens {
            for fmt in FMTS {
                for where_ in [0usize, 3, 6] {
                    if tier == Tier::Quick && where_ != 3 {
                        continue;
                    }
                    k += 1;
                    let mut rng = Rng::fork(7, "load-long", k);
                    let mut doc = String::new();
                    for i in 0..7 {
                        if i == where_ {
                            if rng.chance(1, 3) {
                                doc.push_str(&format!("<http://e/s{}> <http://e/p1> <http://e/{}> .\n", i, "i".repeat(len)));
                            } else {
                                doc.push_str(&format!("<http://e/s{}> <http://e/p1> \"{}\" .\n", i, "x".repeat(len)));
                            }
                        } else {
                            doc.push_str(&format!("<http://e/s{}> <http://e/p0> \"{}v\" .\n", i, i));
                        }
                    }
                    out.push(format!("load {} {} {}", fmt, [0usize, 2][(k % 2) as usize], hex(&doc)));
                    stats.hit("long_statement_doc");
                }
            }
        }
        out
    }

    fn gen(&self, rng: &mut Rng, _tier: Tier, i: usize, stats: &mut Stats) -> String {
        if i % 10 == 9 {
            stats.hit("cross_format");
            let n = rng.range(1, 4);
            let p = |s: String| Term::Plain(s);
            let quads: Vec<QuadT> = (0..n)
                .map(|_| {
                    let o = if rng.chance(1, 2) { format!("http://e/o{}", rng.below(4)) } else { format!("{}v", rng.below(5)) };
                    (p(format!("http://e/s{}", rng.below(3))), p(format!("http://e/p{}", rng.below(3))), p(o), None)
                })
                .collect();
            let toks: Vec<String> = quads.iter().map(show_quad_tok).collect();
            return format!("load cross{}", with_sp(&toks));
        }
        let fmt = FMTS[i % 4];
        let n = if rng.chance(1, 15) { 0 } else { rng.range(1, 12) };
        let mut doc = document(rng, fmt, n, stats);
        if (i / 4) % 6 == 5 {
            stats.hit(&format!("malformed_{}", fmt));
            doc = mutate(rng, &doc);
        } else {
            stats.hit(&format!("wellformed_{}", fmt));
        }
        let prior = prior_quads(rng, stats);
        let threads = if rng.chance(1, 12) { *rng.pick(&[1usize, 2, 7, 16]) } else { 0 };
        if threads > 0 {
            stats.hit("own_rayon_pool");
        }
        let toks: Vec<String> = prior.iter().map(show_quad_tok).collect();
        format!("load {} {} {}{}", fmt, threads, hex(&doc), with_sp(&toks))
    }

    fn exec(&self, req: &str) -> String {
        silence_stderr();
        let toks: Vec<&str> = req.split(' ').filter(|t| !t.is_empty()).collect();
        if toks.len() < 2 || toks[0] != "load" {
            return "bad-request".into();
        }
        if toks[1] == "xml" {
            return exec_xml(&toks);
        }
        if toks[1] == "cross" {
            let mut quads = Vec::new();
            for t in &toks[2..] {
                match parse_quad_tok(t) {
                    Some(q) => quads.push(q),
                    None => return "bad-request".into(),
                }
            }
            let mut parts = Vec::new();
            for fmt in ["nt", "nq", "ttl", "n3"] {
                let doc: String = quads.iter().map(|q| format!("{} {} {} .\n", cross_term(&plain(&q.0)), cross_term(&plain(&q.1)), cross_term(&plain(&q.2)))).collect();
                let r = std::panic::catch_unwind(std::panic::AssertUnwindSafe(|| {
                    let mut db = SparqlDatabase::new();
                    load(&mut db, fmt, &doc);
                    fnv(&show_set(&lex_quads(&db)))
                }));
                parts.push(match r {
                    Ok(h) => format!("{}={}", fmt, h),
                    Err(_) => format!("{}=panic", fmt),
                });
            }
            return parts.join(" ");
        }
        if toks.len() < 4 {
            return "bad-request".into();
        }
        let fmt = toks[1];
        if !FMTS.contains(&fmt) {
            return "bad-request".into();
        }
        let threads: usize = match toks[2].parse() {
            Ok(t) => t,
            Err(_) => return "bad-request".into(),
        };
        if threads > 0 && std::env::var("KVERIF_CHILD").is_err() {
            // a rayon pool of the requested size: run this one request in a child process with RAYON_NUM_THREADS set
            let exe = match std::env::current_exe() {
                Ok(e) => e,
                Err(_) => return "bad-request".into(),
            };
            let child = std::process::Command::new(exe)
                .args(["exec", "C13"])
                .env("KVERIF_CHILD", "1")
                .env("RAYON_NUM_THREADS", threads.to_string())
                .stdin(std::process::Stdio::piped())
                .stdout(std::process::Stdio::piped())
                .stderr(std::process::Stdio::null())
                .spawn();
            let mut child = match child {
                Ok(c) => c,
                Err(_) => return "bad-request".into(),
            };
            {
                let mut stdin = child.stdin.take().unwrap();
                let _ = writeln!(stdin, "{}", req);
            }
            let out = child.wait_with_output();
            return match out {
                Ok(o) => String::from_utf8_lossy(&o.stdout).lines().next().unwrap_or("impl-crash").to_string(),
                Err(_) => "impl-crash".into(),
            };
        }
        let text = match unhex(toks[3]) {
            Some(t) => t,
            None => return "bad-request".into(),
        };
        let mut prior = Vec::new();
        for t in &toks[4..] {
            match parse_quad_tok(t) {
                Some(q) => prior.push(q),
                None => return "bad-request".into(),
            }
        }
        let mut db = build_db(&prior);
        let r = std::panic::catch_unwind(std::panic::AssertUnwindSafe(|| {
            load(&mut db, fmt, &text);
            lex_quads(&db)
        }));
        match r {
            Ok(qs) => show_set(&qs),
            Err(_) => "panic".into(),
        }
    }
}
