//! C06 — probabilities attached to derived facts equal their possible-worlds probability.
//! Protocol documented in lean/Kolibrie/Driver/C06.lean.
use super::{Prop, Stats, Tier};
use crate::rng::Rng;
use datalog::reasoning::Reasoner;
use shared::provenance::{BooleanProvenance, DnfWmcProvenance, MinMaxProbability, Provenance};
use shared::rule::Rule;
use shared::sdd::SddProvenance;
use shared::tag_store::TagStore;
use shared::terms::Term;
use shared::triple::Triple;
use std::collections::BTreeSet;

pub struct C06;

pub type PatS = (String, String, String);

pub fn parse_term(s: &str) -> Option<Term> {
    if s.len() > 1 && s.starts_with('v') {
        Some(Term::Variable(s[1..].to_string()))
    } else {
        s.parse::<u32>().ok().map(Term::Constant)
    }
}
pub fn parse_pat(s: &str) -> Option<(Term, Term, Term)> {
    let v: Vec<&str> = s.split('.').collect();
    if v.len() != 3 {
        return None;
    }
    Some((parse_term(v[0])?, parse_term(v[1])?, parse_term(v[2])?))
}
pub fn parse_pats(s: &str) -> Option<Vec<(Term, Term, Term)>> {
    if s.is_empty() {
        return Some(vec![]);
    }
    s.split(',').map(parse_pat).collect()
}
pub fn parse_rule(s: &str) -> Option<Rule> {
    let (body, head) = s.split_once('>')?;
    let (pr, ng) = body.split_once('~')?;
    Some(Rule { premise: parse_pats(pr)?, negative_premise: parse_pats(ng)?, filters: vec![], conclusion: parse_pats(head)? })
}
pub fn parse_fact(s: &str) -> Option<Triple> {
    let v: Vec<&str> = s.split('.').collect();
    if v.len() != 3 {
        return None;
    }
    Some(Triple { subject: v[0].parse().ok()?, predicate: v[1].parse().ok()?, object: v[2].parse().ok()? })
}
fn term_max(t: &Term) -> u32 {
    match t {
        Term::Constant(c) => *c,
        _ => 0,
    }
}
pub fn rule_max(r: &Rule) -> u32 {
    r.premise.iter().chain(r.negative_premise.iter()).chain(r.conclusion.iter()).map(|(a, b, c)| term_max(a).max(term_max(b)).max(term_max(c))).max().unwrap_or(0)
}

fn show_fact(t: &Triple) -> String {
    format!("{}.{}.{}", t.subject, t.predicate, t.object)
}

fn show_dnf(f: &shared::provenance::WmcFormula) -> String {
    if f.is_empty() {
        return "F".into();
    }
    if f.len() == 1 && f.iter().next().unwrap().is_empty() {
        return "T".into();
    }
    f.iter()
        .map(|c| if c.is_empty() { "E".to_string() } else { c.iter().map(|(v, pol)| format!("{}{}", v, if *pol { "+" } else { "-" })).collect::<Vec<_>>().join(".") })
        .collect::<Vec<_>>()
        .join(",")
}

fn report<P: Provenance>(r: &Reasoner, new: Vec<Triple>, ts: &TagStore<P>, tag: impl Fn(&P::Tag) -> String) -> String {
    let mut all = r.dataset_index.query(None, None, None);
    all.sort();
    let mut new = new;
    new.sort();
    let entries: Vec<String> = all
        .iter()
        .map(|t| {
            let tg = ts.get_tag(t);
            format!("{}={:.12}{}", show_fact(t), ts.provenance().recover_probability(&tg), tag(&tg))
        })
        .collect();
    format!("{} # {}", entries.join(" "), new.iter().map(show_fact).collect::<Vec<_>>().join(";"))
}

impl Prop for C06 {
    fn id(&self) -> &'static str {
        "prov"
    }
    fn cases(&self, tier: Tier) -> usize {
        match tier {
            Tier::Quick => 2400,
            Tier::Thorough => 12000,
        }
    }

    fn exhaustive(&self, _tier: Tier, stats: &mut Stats) -> Vec<String> {
        // every probability pair on the grid for the two textbook shapes (shared evidence, cyclic derivation),
        // in every mode
        let mut out = Vec::new();
        for mode in ["dnf", "sdd", "minmax", "bool"] {
            for a in 0..=4 {
                for b in 0..=4 {
                    for c in [0, 2, 4] {
                        // shared evidence: two proofs of (0 7 0) share seed (0 5 1)
                        out.push(format!(
                            "prov {} 4 f:0.5.1:{} f:0.6.2:{} f:0.6.3:{} r:vx.5.vs,vx.6.vy~>vx.7.0",
                            mode, a, b, c
                        ));
                        // cyclic derivation: reachability over a 3-cycle with one certain edge
                        out.push(format!(
                            "prov {} 4 f:0.5.1:{} f:1.5.2:{} f:2.5.0:{} f:2.5.3:c r:vx.5.vy,vy.5.vz~>vx.5.vz",
                            mode, a, b, c
                        ));
                        stats.add("exhaustive_grid", 2);
                    }
                }
            }
        }
        out
    }

    fn gen(&self, rng: &mut Rng, tier: Tier, i: usize, stats: &mut Stats) -> String {
        let mode = ["dnf", "sdd", "minmax", "bool"][i % 4];
        stats.hit(&format!("mode_{}", mode));
        let d = *rng.pick(&[10usize, 16, 2, 4, 10]);
        let ne = rng.range(2, 5); // entities 0..ne
        let np = rng.range(1, 4); // predicates ne..ne+np
        let ent = |r: &mut Rng| r.below(ne);
        let prd = |r: &mut Rng| ne + r.below(np);
        // ---- facts
        let big = tier == Tier::Thorough && rng.chance(1, 6);
        let max_unc = if big { 12 } else if rng.chance(1, 10) { 10 } else { 7 };
        let nf = rng.range(1, if big { 14 } else { 9 });
        let mut seen: BTreeSet<(usize, usize, usize)> = BTreeSet::new();
        let mut items: Vec<String> = Vec::new();
        let mut unc = 0;
        let pstyle = rng.below(4); // 0 arbitrary, 1 many extremes, 2 all equal, 3 arbitrary
        let eqv = rng.range(0, d);
        for _ in 0..nf {
            let t = (ent(rng), prd(rng), ent(rng));
            if !seen.insert(t) {
                continue;
            }
            if rng.chance(1, 4) || unc >= max_unc {
                items.push(format!("f:{}.{}.{}:c", t.0, t.1, t.2));
                stats.hit("fact_certain");
            } else {
                let k = match pstyle {
                    1 => *rng.pick(&[0, d, 0, d, d / 2, 1]),
                    2 => eqv,
                    _ => rng.range(0, d),
                };
                if k == 0 {
                    stats.hit("prob_zero");
                } else if k == d {
                    stats.hit("prob_one");
                }
                items.push(format!("f:{}.{}.{}:{}", t.0, t.1, t.2, k));
                unc += 1;
                stats.hit("fact_uncertain");
            }
        }
        stats.hit(&format!("uncertain_{:02}", unc));
        // ---- rules
        let nr = rng.range(1, 4);
        let allow_neg = mode != "minmax" && rng.chance(1, 4);
        let feeds = allow_neg && rng.chance(1, 5);
        let mut neg_used = false;
        // predicates that only NOT rules write (so that their heads feed nothing) live above the others
        let neg_head_pred = ne + np;
        for _ in 0..nr {
            let shape = rng.below(10);
            let p = prd(rng);
            let q = prd(rng);
            let r2 = prd(rng);
            let c = ent(rng);
            let mut rule = match shape {
                0 | 1 => format!("vx.{p}.vy,vy.{p}.vz~>vx.{p}.vz"), // transitive closure (recursive)
                2 => format!("vx.{p}.vy~>vy.{p}.vx"),               // symmetry (cyclic derivations)
                3 => format!("vx.{p}.vy~>vx.{q}.vy"),               // copy
                4 => format!("vx.{p}.vy,vy.{q}.vz~>vx.{r2}.vz"),    // join (shared evidence through vy)
                5 => format!("vx.{p}.{c}~>vx.{q}.{c}"),             // constant object
                6 => format!("vx.{p}.vx~>vx.{q}.{c}"),              // repeated variable
                7 => format!("vx.vp.vy~>vy.vp.vx"),                 // variable predicate
                8 => format!("vx.{p}.vy,vx.{q}.vz,vy.{r2}.vw~>vx.{p}.vw,vz.{q}.vy"), // 3 premises, 2 conclusions
                _ => format!("vx.{p}.vy,vz.{q}.vy~>vx.{r2}.vz"),    // join on object
            };
            stats.hit(&format!("rule_shape_{}", shape));
            if shape <= 2 || shape == 7 || shape == 8 {
                stats.hit("recursive_rule");
            }
            if allow_neg && rng.chance(1, 2) {
                // turn into a NOT rule: negated atom over the variables of the first premise
                let (body, head) = rule.split_once("~>").unwrap();
                let first = body.split(',').next().unwrap().to_string();
                let fv: Vec<&str> = first.split('.').collect();
                let npat = match rng.below(3) {
                    0 => format!("{}.{}.{}", fv[0], prd(rng), fv[2]),
                    1 => format!("{}.{}.{}", fv[2], prd(rng), fv[0]),
                    _ => format!("{}.{}.{}", fv[0], prd(rng), ent(rng)),
                };
                let head = if feeds {
                    head.to_string()
                } else {
                    // rewrite head predicates to the NOT-only predicate
                    head.split(',')
                        .map(|h| {
                            let hv: Vec<&str> = h.split('.').collect();
                            format!("{}.{}.{}", hv[0], neg_head_pred, hv[2])
                        })
                        .collect::<Vec<_>>()
                        .join(",")
                };
                rule = format!("{}~{}>{}", body, npat, head);
                neg_used = true;
            }
            items.push(format!("r:{}", rule));
        }
        if neg_used {
            stats.hit(if feeds { "program_not_heads_may_feed" } else { "program_not_heads_isolated" });
        } else {
            stats.hit("program_positive");
        }
        rng.shuffle(&mut items);
        format!("prov {} {} {}", mode, d, items.join(" "))
    }

    fn exec(&self, req: &str) -> String {
        let toks: Vec<&str> = req.split_whitespace().collect();
        if toks.len() < 3 || toks[0] != "prov" {
            return "bad-request".into();
        }
        let mode = toks[1];
        let d: u32 = match toks[2].parse() {
            Ok(x) if x > 0 => x,
            _ => return "bad-request".into(),
        };
        let mut facts: Vec<(Triple, Option<u32>)> = Vec::new();
        let mut rules: Vec<Rule> = Vec::new();
        let mut maxid = 0u32;
        for t in &toks[3..] {
            let parts: Vec<&str> = t.split(':').collect();
            match parts.as_slice() {
                ["f", f, k] => {
                    let tr = match parse_fact(f) {
                        Some(x) => x,
                        None => return "bad-request".into(),
                    };
                    maxid = maxid.max(tr.subject).max(tr.predicate).max(tr.object);
                    if *k == "c" {
                        facts.push((tr, None));
                    } else {
                        match k.parse::<u32>() {
                            Ok(k) => facts.push((tr, Some(k))),
                            _ => return "bad-request".into(),
                        }
                    }
                }
                ["r", r] => match parse_rule(r) {
                    Some(ru) => {
                        maxid = maxid.max(rule_max(&ru));
                        rules.push(ru)
                    }
                    None => return "bad-request".into(),
                },
                _ => return "bad-request".into(),
            }
        }
        // metamorphic twin (dnf / sdd): the same program with 4..63 unrelated uncertain facts (a fresh predicate, fresh
        // objects) whose triples sort between two relevant uncertain facts u < v that occur in different proofs of one
        // derived fact, so that their seed identifiers (ranks in triple order) become u and u + 64; the probabilities of
        // the original facts must not move
        let const_preds_only = rules.iter().all(|ru| ru.premise.iter().chain(ru.negative_premise.iter()).all(|p| matches!(p.1, shared::terms::Term::Constant(_))));
        let want_pad = (mode == "dnf" || mode == "sdd") && const_preds_only && crate::proto::fnv(req) % 2 == 0 && std::env::var("KVERIF_C06_NOPAD").is_err();
        let build = |pad: Option<(u32, u32)>| -> Option<Reasoner> {
            let mut r = Reasoner::new();
            {
                let mut dict = r.dictionary.write().unwrap();
                for i in 0..=(maxid + 70) {
                    let id = dict.encode(&format!("n{}", i));
                    assert_eq!(id, i);
                }
            }
            let name = |i: u32| format!("n{}", i);
            for (t, k) in &facts {
                match k {
                    None => r.add_abox_triple(&name(t.subject), &name(t.predicate), &name(t.object)),
                    Some(k) => r.add_tagged_triple(&name(t.subject), &name(t.predicate), &name(t.object), *k as f64 / d as f64),
                }
            }
            if let Some((count, subject)) = pad {
                for j in 0..count {
                    r.add_tagged_triple(&name(subject), &name(maxid + 1), &name(maxid + 2 + j), 0.5);
                }
            }
            for ru in rules.iter().cloned() {
                if r.try_add_rule(ru).is_err() {
                    return None;
                }
            }
            Some(r)
        };
        let mut r = match build(None) {
            Some(r) => r,
            None => return "rejected".into(),
        };
        let mut padded_note = String::new();
        if want_pad {
            let mut seeds: Vec<Triple> = facts.iter().filter(|(_, k)| k.is_some()).map(|(t, _)| t.clone()).collect();
            seeds.sort();
            seeds.dedup();
            let mut pairs: Vec<(usize, usize)> = Vec::new();
            if let Some(mut probe) = build(None) {
                let (_, ts) = probe.infer_new_facts_with_provenance(DnfWmcProvenance::new());
                for t in probe.dataset_index.query(None, None, None) {
                    let f = ts.get_tag(&t);
                    let cl: Vec<Vec<u32>> = f.iter().map(|c| c.iter().map(|(v, _)| *v).collect()).collect();
                    for i in 0..cl.len() {
                        for j in 0..cl.len() {
                            if i != j {
                                for u in &cl[i] {
                                    for v in &cl[j] {
                                        let (u, v) = (*u as usize, *v as usize);
                                        if u < v && v < seeds.len() && !cl[i].contains(&(v as u32)) && seeds[u].subject < seeds[v].subject {
                                            pairs.push((u, v));
                                        }
                                    }
                                }
                            }
                        }
                    }
                }
            }
            pairs.sort();
            pairs.dedup();
            if !pairs.is_empty() {
                let (u, v) = pairs[(crate::proto::fnv(req) / 64) as usize % pairs.len()];
                let pad = Some(((64 - (v - u)) as u32, seeds[u].subject));
                let probs = |r: &mut Reasoner, sdd: bool| -> Vec<(String, f64)> {
                    if sdd {
                        let (_, ts) = r.infer_new_facts_with_provenance(SddProvenance::new());
                        let mut all = r.dataset_index.query(None, None, None);
                        all.sort();
                        all.iter().map(|t| (show_fact(t), ts.provenance().recover_probability(&ts.get_tag(t)))).collect()
                    } else {
                        let (_, ts) = r.infer_new_facts_with_provenance(DnfWmcProvenance::new());
                        let mut all = r.dataset_index.query(None, None, None);
                        all.sort();
                        all.iter().map(|t| (show_fact(t), ts.provenance().recover_probability(&ts.get_tag(t)))).collect()
                    }
                };
                if let (Some(mut a), Some(mut b)) = (build(None), build(pad)) {
                    let pa = probs(&mut a, mode == "sdd");
                    let pb = probs(&mut b, mode == "sdd");
                    for (f, x) in &pa {
                        match pb.iter().find(|(g, _)| g == f) {
                            Some((_, y)) if (x - y).abs() <= 1e-9 => {}
                            Some((_, y)) => padded_note = format!(" padded-differs:{}:{:.9}:{:.9}", f, x, y),
                            None => padded_note = format!(" padded-missing:{}", f),
                        }
                    }
                }
            }
        }
        match mode {
            "dnf" => {
                let (new, ts) = r.infer_new_facts_with_provenance(DnfWmcProvenance::new());
                format!("{}{}", report(&r, new, &ts, |t| format!("@{}", show_dnf(t))), padded_note)
            }
            "sdd" => {
                let (new, ts) = r.infer_new_facts_with_provenance(SddProvenance::new());
                format!("{}{}", report(&r, new, &ts, |_| String::new()), padded_note)
            }
            "minmax" => {
                let (new, ts) = r.infer_new_facts_with_provenance(MinMaxProbability);
                report(&r, new, &ts, |_| String::new())
            }
            "bool" => {
                let (new, ts) = r.infer_new_facts_with_provenance(BooleanProvenance);
                report(&r, new, &ts, |_| String::new())
            }
            _ => "bad-request".into(),
        }
    }
}
