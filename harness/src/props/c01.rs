//! C01 — SELECT answers equal the SPARQL algebra.  Protocol: lean/Kolibrie/Driver/C01.lean
use super::c02::{gen_group, gen_spec, gen_triple, pat_vars};
use super::{Prop, Stats, Tier};
use crate::engine_common::*;
use crate::proto::hex;
use crate::rng::Rng;
use kolibrie::execute_query::execute_sparql_query;
use kolibrie::sparql_database::SparqlDatabase;
use std::cmp::Ordering;

pub struct C01;

fn cmp_vals(a: &str, b: &str) -> Ordering {
    match (a.parse::<f64>(), b.parse::<f64>()) {
        (Ok(x), Ok(y)) => x.partial_cmp(&y).unwrap_or(Ordering::Equal),
        _ => a.cmp(b),
    }
}
fn columns(q: &Select) -> Vec<u32> {
    match &q.spec.proj {
        None => {
            let mut v = Vec::new();
            pat_vars(&q.pat, &mut v);
            v
        }
        Some(items) => items
            .iter()
            .map(|i| match i {
                Item::Var(v) => *v,
                Item::Agg(_, _, o) => *o,
            })
            .collect(),
    }
}
fn cmp_rows(order: &[(usize, bool)], a: &[String], b: &[String]) -> Ordering {
    for (col, desc) in order {
        let c = cmp_vals(&a[*col], &b[*col]);
        let c = if *desc { c.reverse() } else { c };
        if c != Ordering::Equal {
            return c;
        }
    }
    Ordering::Equal
}
fn table(rows: &[Vec<String>]) -> String {
    let mut out: Vec<String> = rows.iter().map(|r| r.iter().map(|c| hex(&canon_value(c))).collect::<Vec<_>>().join(",")).collect();
    out.sort();
    format!("{{{}}}", out.join(";"))
}

/// The database the query runs on.  For one request in three it has a *query history*: half of the data is stored, two
/// SELECTs run (over the default graph and over GRAPH ?g: whatever a query caches - statistics, graph lists, plans - is
/// now warm), then the rest of the data arrives through the storage API, graphs included.  The answer to the request's
/// query depends on the stored quads only.
fn build_db_with_query_history(db_ast: &Db, text: &str) -> SparqlDatabase {
    if crate::proto::fnv(text) % 3 != 0 || db_ast.quads.len() < 2 {
        return build_db(db_ast);
    }
    let half = db_ast.quads.len() / 2;
    let first = Db { quads: db_ast.quads[..half].to_vec(), graphs: vec![] };
    let mut db = build_db(&first);
    let _ = execute_sparql_query("SELECT * WHERE { ?s ?p ?o }", &mut db);
    let _ = execute_sparql_query("SELECT ?g ?s WHERE { GRAPH ?g { ?s ?p ?o } }", &mut db);
    for g in &db_ast.graphs {
        let id = db.dictionary.write().unwrap().encode(g);
        db.dataset_index.create_graph(shared::dataset_index::GraphId::Named(id));
    }
    for (s, p, o, g) in &db_ast.quads[half..] {
        match g {
            None => db.add_triple_parts(s, p, o),
            Some(g) => {
                db.add_quad_parts(s, p, o, g);
            }
        }
    }
    db
}

pub fn run_select(db_ast: &Db, q: &Select) -> String {
    let text = sparql_select(q);
    let mut db = build_db_with_query_history(db_ast, &text);
    let rows = match execute_sparql_query(&text, &mut db) {
        Ok(r) => r,
        Err(e) => return format!("error:{}", hex(&e.chars().take(120).collect::<String>())),
    };
    // ORDER BY keys that are projected can be checked on the output
    let cols = columns(q);
    let order: Vec<(usize, bool)> = q.spec.order.iter().filter_map(|(v, d)| cols.iter().position(|c| c == v).map(|i| (i, *d))).collect();
    let mut sorted_ok = true;
    if order.len() == q.spec.order.len() && !order.is_empty() {
        for w in rows.windows(2) {
            if cmp_rows(&order, &w[0], &w[1]) == Ordering::Greater {
                sorted_ok = false;
            }
        }
    }
    if let Some(n) = q.spec.limit {
        // a LIMIT answer is judged as a *legal cut* of the unlimited answer
        let mut q2 = q.clone();
        q2.spec.limit = None;
        let mut db2 = build_db(db_ast);
        let full = match execute_sparql_query(&sparql_select(&q2), &mut db2) {
            Ok(r) => r,
            Err(e) => return format!("error:{}", hex(&e.chars().take(120).collect::<String>())),
        };
        let mut rest = full.clone();
        let mut cut_ok = rows.len() == n.min(full.len());
        for r in &rows {
            match rest.iter().position(|x| x == r) {
                Some(i) => {
                    rest.remove(i);
                }
                None => cut_ok = false,
            }
        }
        if order.len() == q.spec.order.len() && !order.is_empty() {
            if let Some(last) = rows.last() {
                for e in &rest {
                    if cmp_rows(&order, last, e) == Ordering::Greater {
                        cut_ok = false;
                    }
                }
            }
        }
        return format!("{} n={} sorted={}", table(&full), rows.len(), if sorted_ok && cut_ok { "ok" } else { "BAD" });
    }
    format!("{} n={} sorted={}", table(&rows), rows.len(), if sorted_ok { "ok" } else { "BAD" })
}

impl Prop for C01 {
    fn id(&self) -> &'static str {
        "select"
    }
    fn cases(&self, tier: Tier) -> usize {
        match tier {
            Tier::Quick => 2500,
            Tier::Thorough => 40000,
        }
    }
    fn gen(&self, rng: &mut Rng, _tier: Tier, _i: usize, stats: &mut Stats) -> String {
        let mut u = universe(rng);
        let big = _i % 50 == 13;
        let db = if big {
            // enough rows for the executor's chunked / parallel code paths (see C02) under the default thread pool
            stats.hit("large_dataset");
            gen_big_db(rng, &mut u)
        } else {
            gen_db(rng, &mut u)
        };
        let nvars = rng.range(3, 6) as u32;
        let mut fresh = 10;
        let scoped = rng.below(10) < 8;
        stats.hit(if scoped { "scoped_stream" } else { "maybe_bound_stream" });
        let mut pat = gen_group(rng, &u, nvars, 2, scoped, &mut fresh);
        if big {
            let p0 = Term::Const(rng.pick(&u.preds).clone());
            let p1 = if rng.chance(1, 2) { Term::Const(rng.pick(&u.preds).clone()) } else { Term::Var(3) };
            let second = if rng.chance(1, 2) { (Term::Var(1), p1, Term::Var(2)) } else { (Term::Var(0), p1, Term::Var(2)) };
            pat = Pat::Group(vec![Pat::Bgp(vec![(Term::Var(0), p0, Term::Var(1)), second])]);
        }
        let merged = !big && u.graphs.len() >= 2 && rng.chance(1, 14);
        let mut db = db;
        if merged {
            // the query default graph is the merge of several FROM graphs that share triples; the patterns are probed with
            // some, all or none of their positions already bound (the same triple pattern twice, its mirror image, a
            // ground pattern): a shared triple is one solution, however the scan is keyed
            stats.hit("merged_default_graph_with_shared_triples");
            let gs = u.graphs.clone();
            let mut extra = Vec::new();
            for (s_, p_, o_, g_) in db.quads.iter() {
                if rng.chance(2, 3) {
                    let tgt = rng.pick(&gs).clone();
                    if g_.as_ref() != Some(&tgt) {
                        extra.push((s_.clone(), p_.clone(), o_.clone(), Some(tgt)));
                    }
                }
            }
            db.quads.extend(extra);
            db.quads.sort();
            db.quads.dedup();
            u.seeds = db.quads.iter().map(|(a, b, c, _)| (a.clone(), b.clone(), c.clone())).collect();
            if !u.seeds.is_empty() {
                let (s0, p0, o0) = rng.pick(&u.seeds).clone();
                let t = match rng.below(3) {
                    0 => (Term::Var(0), Term::Const(p0.clone()), Term::Var(1)),
                    1 => (Term::Const(s0.clone()), Term::Var(2), Term::Var(1)),
                    _ => (Term::Var(0), Term::Var(2), Term::Const(o0.clone())),
                };
                let second = match rng.below(4) {
                    0 => t.clone(),
                    1 if !matches!(&t.2, Term::Const(c) if !c.contains(':')) => (t.2.clone(), t.1.clone(), t.0.clone()),
                    2 => (Term::Const(s0), Term::Const(p0), Term::Const(o0)),
                    _ => gen_triple(rng, &u, nvars),
                };
                pat = Pat::Group(vec![Pat::Bgp(vec![t, second])]);
            }
        }
        let prebound = !big && !merged && rng.chance(1, 12);
        if prebound {
            // GRAPH ?g whose variable is already bound (by VALUES or by a triple pattern) when the GRAPH block is reached:
            // graphs that are stored but hidden by the dataset clause, and names of graphs that do not exist, must not match
            stats.hit("graph_var_prebound");
            let gv = 0u32;
            let mut names: Vec<Option<String>> = u.graphs.iter().map(|g| Some(g.clone())).collect();
            names.push(Some("urn:gmissing".into()));
            if rng.chance(1, 3) {
                names.push(None);
            }
            rng.shuffle(&mut names);
            let binder = if rng.chance(2, 3) || u.seeds.is_empty() {
                Pat::Values(vec![gv], names.into_iter().map(|n| vec![n]).collect())
            } else {
                Pat::Bgp(vec![(Term::Var(gv), Term::Var(4), Term::Var(5))])
            };
            let inner = gen_group(rng, &u, nvars, 1, true, &mut fresh);
            pat = Pat::Group(vec![binder, Pat::Graph(GTerm::Var(gv), Box::new(inner))]);
        }
        let mut vars = Vec::new();
        pat_vars(&pat, &mut vars);
        fresh += 1;
        let mut spec = gen_spec(rng, &vars, fresh, true, false);
        // ORDER BY keys are projected columns (so the sequence can be checked) and homogeneous in kind is not
        // enforced here: the comparator is transcribed in the model
        if let Some(items) = &spec.proj {
            let outs: Vec<u32> = items.iter().map(|i| match i { Item::Var(v) => *v, Item::Agg(_, _, o) => *o }).collect();
            spec.order.retain(|(v, _)| outs.contains(v));
        }
        let (mut from, mut from_named) = (vec![], vec![]);
        if merged {
            from = u.graphs.clone();
            if rng.chance(1, 3) {
                from.remove(0);
            }
            if from.len() < 2 {
                from = u.graphs.clone();
            }
            stats.hit("dataset_clause");
        } else if rng.chance(1, 4) || (prebound && rng.chance(3, 4)) {
            for g in &u.graphs {
                if rng.chance(1, 2) {
                    from.push(g.clone());
                }
                if rng.chance(1, 2) {
                    from_named.push(g.clone());
                }
            }
            if rng.chance(1, 6) {
                from.push("urn:gmissing".into());
            }
            stats.hit("dataset_clause");
        }
        if spec.limit.is_some() {
            stats.hit("limit");
        }
        if !spec.order.is_empty() {
            stats.hit("order_by");
        }
        if spec.distinct {
            stats.hit("distinct");
        }
        if spec.proj.as_ref().map_or(false, |p| p.iter().any(|i| matches!(i, Item::Agg(..)))) {
            stats.hit("aggregate");
        }
        let q = Select { spec, from, from_named, pat };
        let mut toks: Vec<String> = vec!["select".into()];
        t_db(&db, &mut toks);
        t_select(&q, &mut toks);
        toks.join(" ")
    }
    fn exec(&self, req: &str) -> String {
        let mut t = Toks::new(req);
        if t.next() != Some("select") {
            return "bad-request".into();
        }
        match (p_db(&mut t), p_select(&mut t)) {
            (Some(db), Some(q)) if t.done() => run_select(&db, &q),
            _ => "bad-request".into(),
        }
    }
}
