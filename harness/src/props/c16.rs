//! C16 — the query parser is total and faithful.  Protocol: lean/Kolibrie/Driver/C16.lean.
//!
//!   parse scan <which> <hex input> <classes>     scanner-level differential (c16_scan.rs, hook `parser::verif`)
//!   parse rt <lay1/lay2/…> <tree>                print the generated tree with each layout (`<dots>:<codes>`), run the
//!                                                REAL parser on every text, reply = prefix code of each parsed tree
//!   parse fuzz <hex text>                        totality: every public parser returns Ok/Err, Ok = all consumed
//!   parse nest <kind> <n>                        n-fold nesting, parsed in a child process (stack overflow = abort)
use super::{Prop, Stats, Tier};
use crate::proto::*;
use crate::rng::Rng;
use shared::query::{FilterExpression, GroupGraphPattern, SelectQuery, SortDirection};
use std::panic::{catch_unwind, AssertUnwindSafe};

#[path = "c16_scan.rs"]
mod c16_scan;

pub struct C16;

// ------------------------------------------------------------------------------------------------ syntax trees

#[derive(Clone, Debug, PartialEq)]
enum F {
    Cmp(String, String, String),
    And(Box<F>, Box<F>),
    Or(Box<F>, Box<F>),
    Not(Box<F>),
    Other(String),
}
#[derive(Clone, Debug, PartialEq)]
enum P {
    Unit,
    Bgp(String, Vec<(String, String)>),
    Join(Vec<P>),
    Union(Vec<P>),
    Graph(String, Box<P>),
    Filter(F),
    Sub(Box<S>),
    Other(String),
}
#[derive(Clone, Debug, PartialEq)]
struct S {
    distinct: bool,
    vars: Vec<String>,
    pat: P,
    group: Vec<String>,
    order: Vec<(String, bool)>,
    limit: Option<usize>,
    other: Option<String>,
}

fn enc_f(f: &F, out: &mut Vec<String>) {
    match f {
        F::Cmp(l, op, r) => {
            out.push("C".into());
            out.push(hex(l));
            out.push(op.clone());
            out.push(hex(r));
        }
        F::And(a, b) => {
            out.push("A".into());
            enc_f(a, out);
            enc_f(b, out);
        }
        F::Or(a, b) => {
            out.push("O".into());
            enc_f(a, out);
            enc_f(b, out);
        }
        F::Not(a) => {
            out.push("X".into());
            enc_f(a, out);
        }
        F::Other(d) => {
            out.push("Z".into());
            out.push(hex(d));
        }
    }
}
fn enc_p(p: &P, out: &mut Vec<String>) {
    match p {
        P::Unit => out.push("U".into()),
        P::Bgp(s, pos) => {
            out.push("B".into());
            out.push(hex(s));
            out.push(pos.len().to_string());
            for (p, o) in pos {
                out.push(hex(p));
                out.push(hex(o));
            }
        }
        P::Join(ps) | P::Union(ps) => {
            out.push(if matches!(p, P::Join(_)) { "J" } else { "N" }.into());
            out.push(ps.len().to_string());
            for q in ps {
                enc_p(q, out);
            }
        }
        P::Graph(n, q) => {
            out.push("G".into());
            out.push(hex(n));
            enc_p(q, out);
        }
        P::Filter(f) => {
            out.push("F".into());
            enc_f(f, out);
        }
        P::Sub(q) => {
            out.push("Q".into());
            enc_s(q, out);
        }
        P::Other(d) => {
            out.push("Z".into());
            out.push(hex(d));
        }
    }
}
fn enc_s(s: &S, out: &mut Vec<String>) {
    if let Some(o) = &s.other {
        out.push("Z".into());
        out.push(hex(o));
        return;
    }
    out.push("S".into());
    out.push(if s.distinct { "1" } else { "0" }.into());
    out.push(s.vars.len().to_string());
    for v in &s.vars {
        out.push(hex(v));
    }
    enc_p(&s.pat, out);
    out.push(s.group.len().to_string());
    for v in &s.group {
        out.push(hex(v));
    }
    out.push(s.order.len().to_string());
    for (v, d) in &s.order {
        out.push(hex(v));
        out.push(if *d { "1" } else { "0" }.into());
    }
    out.push(match s.limit {
        None => "-".into(),
        Some(n) => n.to_string(),
    });
}
fn encode(s: &S) -> String {
    let mut out = Vec::new();
    enc_s(s, &mut out);
    out.join(",")
}

struct Dec<'a> {
    toks: Vec<&'a str>,
    i: usize,
}
impl<'a> Dec<'a> {
    fn next(&mut self) -> Option<&'a str> {
        let t = self.toks.get(self.i).copied();
        self.i += 1;
        t
    }
    fn lex(&mut self) -> Option<String> {
        unhex(self.next()?)
    }
    fn num(&mut self) -> Option<usize> {
        self.next()?.parse().ok()
    }
    fn f(&mut self) -> Option<F> {
        Some(match self.next()? {
            "C" => {
                let l = self.lex()?;
                let op = self.next()?.to_string();
                let r = self.lex()?;
                F::Cmp(l, op, r)
            }
            "A" => F::And(Box::new(self.f()?), Box::new(self.f()?)),
            "O" => F::Or(Box::new(self.f()?), Box::new(self.f()?)),
            "X" => F::Not(Box::new(self.f()?)),
            _ => return None,
        })
    }
    fn p(&mut self) -> Option<P> {
        Some(match self.next()? {
            "U" => P::Unit,
            "B" => {
                let s = self.lex()?;
                let n = self.num()?;
                let mut pos = Vec::new();
                for _ in 0..n {
                    pos.push((self.lex()?, self.lex()?));
                }
                P::Bgp(s, pos)
            }
            k @ ("J" | "N") => {
                let n = self.num()?;
                let mut ps = Vec::new();
                for _ in 0..n {
                    ps.push(self.p()?);
                }
                if k == "J" { P::Join(ps) } else { P::Union(ps) }
            }
            "G" => P::Graph(self.lex()?, Box::new(self.p()?)),
            "F" => P::Filter(self.f()?),
            "Q" => P::Sub(Box::new(self.s()?)),
            _ => return None,
        })
    }
    fn s(&mut self) -> Option<S> {
        if self.next()? != "S" {
            return None;
        }
        let distinct = self.next()? == "1";
        let nv = self.num()?;
        let mut vars = Vec::new();
        for _ in 0..nv {
            vars.push(self.lex()?);
        }
        let pat = self.p()?;
        let ng = self.num()?;
        let mut group = Vec::new();
        for _ in 0..ng {
            group.push(self.lex()?);
        }
        let no = self.num()?;
        let mut order = Vec::new();
        for _ in 0..no {
            order.push((self.lex()?, self.next()? == "1"));
        }
        let lim = self.next()?;
        let limit = if lim == "-" { None } else { Some(lim.parse().ok()?) };
        Some(S { distinct, vars, pat, group, order, limit, other: None })
    }
}
fn decode(code: &str) -> Option<S> {
    let mut d = Dec { toks: code.split(',').collect(), i: 0 };
    let s = d.s()?;
    if d.i == d.toks.len() { Some(s) } else { None }
}

// conversion of the REAL syntax tree into the comparable form ------------------------------------------------

fn conv_f(f: &FilterExpression<'_>) -> F {
    match f {
        FilterExpression::Comparison(l, op, r) => F::Cmp(l.to_string(), op.to_string(), r.to_string()),
        FilterExpression::And(a, b) => F::And(Box::new(conv_f(a)), Box::new(conv_f(b))),
        FilterExpression::Or(a, b) => F::Or(Box::new(conv_f(a)), Box::new(conv_f(b))),
        FilterExpression::Not(a) => F::Not(Box::new(conv_f(a))),
        other => F::Other(format!("{:?}", other)),
    }
}
fn conv_p(p: &GroupGraphPattern<'_>) -> P {
    match p {
        GroupGraphPattern::Unit => P::Unit,
        GroupGraphPattern::Bgp(ts) => {
            if ts.is_empty() || ts.iter().any(|t| t.0 != ts[0].0) {
                return P::Other(format!("{:?}", p));
            }
            P::Bgp(ts[0].0.to_string(), ts.iter().map(|t| (t.1.to_string(), t.2.to_string())).collect())
        }
        GroupGraphPattern::Join(ps) => P::Join(ps.iter().map(conv_p).collect()),
        GroupGraphPattern::Union(ps) => P::Union(ps.iter().map(conv_p).collect()),
        GroupGraphPattern::Graph { name, pattern } => P::Graph(name.to_string(), Box::new(conv_p(pattern))),
        GroupGraphPattern::Filter(f) => P::Filter(conv_f(f)),
        GroupGraphPattern::SubQuery(q) => P::Sub(Box::new(conv_s(&q.query))),
        other => P::Other(format!("{:?}", other)),
    }
}
fn conv_s(q: &SelectQuery<'_>) -> S {
    let mut other = None;
    let vars: Vec<String> = if q.variables == vec![("*", "*", None)] {
        Vec::new()
    } else {
        q.variables
            .iter()
            .map(|(k, v, a)| {
                if *k != "VAR" || a.is_some() {
                    other = Some(format!("{:?}", q.variables));
                }
                v.to_string()
            })
            .collect()
    };
    if !q.from.is_empty() || !q.from_named.is_empty() {
        other = Some(format!("from {:?} {:?}", q.from, q.from_named));
    }
    S {
        distinct: q.distinct,
        vars,
        pat: conv_p(&q.pattern),
        group: q.group_vars.iter().map(|v| v.to_string()).collect(),
        order: q.order_conditions.iter().map(|c| (c.variable.to_string(), c.direction == SortDirection::Desc)).collect(),
        limit: q.limit,
        other,
    }
}

// printer: mirrors lean/Kolibrie/Model/Syntax.lean (`toksSel`, `render`) and Driver/C16.lean (`layoutOf`) -----

#[derive(Clone, Debug, PartialEq)]
enum Tok {
    Kw(String),
    Term(String),
    Sym(String),
}
fn sy(s: &str) -> Tok {
    Tok::Sym(s.to_string())
}
fn kw(s: &str) -> Tok {
    Tok::Kw(s.to_string())
}
#[derive(Clone, Copy, PartialEq)]
enum Dots {
    All,
    None,
    Between,
    // the same three with a sub-select printed directly inside the braces of a group position
    // (`GRAPH ?g { SELECT … }`, `WHERE { SELECT … }`): Rust printer only, used by the `text` requests
    AllDirect,
    NoneDirect,
    BetweenDirect,
}
fn is_direct(d: Dots) -> bool {
    matches!(d, Dots::AllDirect | Dots::NoneDirect | Dots::BetweenDirect)
}
fn dot_tok(d: Dots, last: bool, out: &mut Vec<Tok>) {
    match d {
        Dots::All | Dots::AllDirect => out.push(sy(".")),
        Dots::None | Dots::NoneDirect => {}
        Dots::Between | Dots::BetweenDirect => {
            if !last {
                out.push(sy("."))
            }
        }
    }
}
fn toks_pos(pos: &[(String, String)], out: &mut Vec<Tok>) {
    for (i, (p, o)) in pos.iter().enumerate() {
        out.push(Tok::Term(p.clone()));
        out.push(Tok::Term(o.clone()));
        if i + 1 < pos.len() {
            out.push(sy(";"));
        }
    }
}
fn toks_f(f: &F, out: &mut Vec<Tok>) {
    match f {
        F::Cmp(l, op, r) => {
            out.push(Tok::Term(l.clone()));
            out.push(sy(op));
            out.push(Tok::Term(r.clone()));
        }
        F::And(a, b) | F::Or(a, b) => {
            out.push(sy("("));
            toks_f(a, out);
            out.push(sy(")"));
            out.push(sy(if matches!(f, F::And(..)) { "&&" } else { "||" }));
            out.push(sy("("));
            toks_f(b, out);
            out.push(sy(")"));
        }
        F::Not(a) => {
            out.push(sy("!"));
            out.push(sy("("));
            toks_f(a, out);
            out.push(sy(")"));
        }
        F::Other(_) => {}
    }
}
fn toks_item(d: Dots, p: &P, out: &mut Vec<Tok>) {
    match p {
        P::Unit => {
            out.push(sy("{"));
            out.push(sy("}"));
        }
        P::Bgp(s, pos) => {
            out.push(Tok::Term(s.clone()));
            toks_pos(pos, out);
        }
        P::Join(ps) => {
            out.push(sy("{"));
            toks_items(d, ps, out);
            out.push(sy("}"));
        }
        P::Union(ps) => toks_alts(d, ps, out),
        P::Graph(n, q) => {
            out.push(kw("GRAPH"));
            out.push(Tok::Term(n.clone()));
            toks_braced(d, q, out);
        }
        P::Filter(f) => {
            out.push(kw("FILTER"));
            out.push(sy("("));
            toks_f(f, out);
            out.push(sy(")"));
        }
        P::Sub(q) => {
            out.push(sy("{"));
            toks_sel(d, q, out);
            out.push(sy("}"));
        }
        P::Other(_) => {}
    }
}
fn toks_braced(d: Dots, p: &P, out: &mut Vec<Tok>) {
    match p {
        P::Unit | P::Join(_) => toks_item(d, p, out),
        P::Sub(_) if is_direct(d) => toks_item(d, p, out),
        _ => {
            out.push(sy("{"));
            toks_item(d, p, out);
            if !matches!(p, P::Filter(_)) {
                dot_tok(d, true, out);
            }
            out.push(sy("}"));
        }
    }
}
fn toks_items(d: Dots, ps: &[P], out: &mut Vec<Tok>) {
    for (i, p) in ps.iter().enumerate() {
        toks_item(d, p, out);
        // the real parser does not accept `.` after FILTER (its branch `continue`s before the dot is read)
        if !matches!(p, P::Filter(_)) {
            dot_tok(d, i + 1 == ps.len(), out);
        }
    }
}
fn toks_alts(d: Dots, ps: &[P], out: &mut Vec<Tok>) {
    for (i, p) in ps.iter().enumerate() {
        toks_braced(d, p, out);
        if i + 1 < ps.len() {
            out.push(kw("UNION"));
        }
    }
}
fn toks_sel(d: Dots, q: &S, out: &mut Vec<Tok>) {
    out.push(kw("SELECT"));
    if q.distinct {
        out.push(kw("DISTINCT"));
    }
    if q.vars.is_empty() {
        out.push(sy("*"));
    } else {
        for v in &q.vars {
            out.push(Tok::Term(v.clone()));
        }
    }
    out.push(kw("WHERE"));
    toks_braced(d, &q.pat, out);
    if !q.group.is_empty() {
        out.push(kw("GROUP"));
        out.push(kw("BY"));
        for v in &q.group {
            out.push(Tok::Term(v.clone()));
        }
    }
    if !q.order.is_empty() {
        out.push(kw("ORDER"));
        out.push(kw("BY"));
        for (v, desc) in &q.order {
            if *desc {
                out.push(kw("DESC"));
                out.push(sy("("));
                out.push(Tok::Term(v.clone()));
                out.push(sy(")"));
            } else {
                out.push(Tok::Term(v.clone()));
            }
        }
    }
    if let Some(n) = q.limit {
        out.push(kw("LIMIT"));
        out.push(Tok::Term(n.to_string()));
    }
}
fn tight_sym(s: &str) -> bool {
    matches!(s, "{" | "}" | "(" | ")" | ";" | ",")
}
fn is_var_lex(t: &str) -> bool {
    let mut c = t.chars();
    match c.next() {
        Some('?') | Some('$') => {
            let rest: Vec<char> = c.collect();
            !rest.is_empty() && rest.iter().all(|c| c.is_ascii_alphanumeric() || *c == '_')
        }
        _ => false,
    }
}
fn can_touch(prev: &Tok, next: &Tok) -> bool {
    match (prev, next) {
        (Tok::Sym(a), Tok::Sym(b)) => (tight_sym(a) && tight_sym(b)) || (a == "}" && b == ".") || (a == ")" && b == "."),
        (Tok::Sym(a), _) => tight_sym(a),
        (Tok::Term(t), Tok::Sym(b)) => tight_sym(b) || (b == "." && is_var_lex(t)),
        (Tok::Kw(_), Tok::Sym(b)) => tight_sym(b),
        _ => false,
    }
}
fn sep_of_code(c: usize, tight_ok: bool) -> &'static str {
    match c % 10 {
        0 => " ",
        1 => "\n",
        2 => "\t",
        3 => "  ",
        4 => " # c\n",
        5 => "\r\n",
        6 => if tight_ok { "" } else { " " },
        7 => if tight_ok { "" } else { "\n" },
        8 => "#{ ?x } \"\n\t",
        _ => " ",
    }
}
fn kw_text(variant: usize, k: &str) -> String {
    match variant % 3 {
        0 => k.to_string(),
        1 => k.to_lowercase(),
        _ => k.chars().enumerate().map(|(i, c)| if i % 2 == 0 { c.to_ascii_lowercase() } else { c.to_ascii_uppercase() }).collect(),
    }
}
fn render(codes: &[usize], toks: &[Tok]) -> String {
    let n = codes.len();
    let code = |i: usize| if n == 0 { 0 } else { codes[i % n] };
    let mut out = String::new();
    for (i, t) in toks.iter().enumerate() {
        if i == 0 {
            if code(0) % 2 != 0 {
                out.push('\n');
            }
        } else {
            out.push_str(sep_of_code(code(i), can_touch(&toks[i - 1], t)));
        }
        match t {
            Tok::Kw(k) => out.push_str(&kw_text(code(i + 1) / 10, k)),
            Tok::Term(s) | Tok::Sym(s) => out.push_str(s),
        }
    }
    out
}
fn parse_layout(l: &str) -> Option<(Dots, Vec<usize>)> {
    let (d, codes) = l.split_once(':')?;
    let d = match d {
        "a" => Dots::All,
        "n" => Dots::None,
        "b" => Dots::Between,
        _ => return None,
    };
    let codes: Option<Vec<usize>> = if codes.is_empty() { Some(vec![]) } else { codes.split(',').map(|x| x.parse().ok()).collect() };
    Some((d, codes?))
}

// generator ---------------------------------------------------------------------------------------------------

const VARS: &[&str] = &["?s", "?p", "?o", "?x", "?y1", "$z", "?long_name_2", "?g"];
const IRIS: &[&str] = &[
    "<http://example.org/a>",
    "<http://example.org/b#frag>",
    "<http://ex.org/caf\u{e9}>",
    "<http://ex.org/\u{8a9e}/x>",
    "<urn:x:y>",
    "<a>",
    "<http://example.org/q?k=v&w=1>",
];
const NAMES: &[&str] = &["ex:a", "ex:name", "foaf:knows", "ex:a-b", "ex:n1", "rdf:type", "ex:x_y"];
const LITS: &[&str] = &["\"v\"", "\"two words\"", "\"caf\u{e9}\"", "\"\u{8a9e}\u{1f600}\"", "\"# not a comment { } .\"", "\"\"", "\"1\"", "\"a;b,c\""];
const NUMS: &[&str] = &["0", "7", "42", "1000"];
const OPS: &[&str] = &["=", "!=", "<", ">", "<=", ">="];

fn pick(r: &mut Rng, xs: &[&str]) -> String {
    r.pick(xs).to_string()
}
fn subj(r: &mut Rng) -> String {
    match r.below(4) {
        0 => pick(r, IRIS),
        1 => pick(r, NAMES),
        _ => pick(r, VARS),
    }
}
fn pred(r: &mut Rng) -> String {
    match r.below(6) {
        0 => pick(r, VARS),
        1 => "a".to_string(),
        2 | 3 => pick(r, NAMES),
        _ => pick(r, IRIS),
    }
}
fn objt(r: &mut Rng) -> String {
    match r.below(6) {
        0 => pick(r, IRIS),
        1 => pick(r, NAMES),
        2 => pick(r, LITS),
        3 => pick(r, NUMS),
        _ => pick(r, VARS),
    }
}
fn operand(r: &mut Rng) -> String {
    match r.below(5) {
        0 => pick(r, LITS),
        1 => pick(r, NUMS),
        2 => pick(r, IRIS),
        _ => pick(r, VARS),
    }
}
fn gen_f(r: &mut Rng, depth: usize) -> F {
    if depth == 0 || r.chance(1, 2) {
        return F::Cmp(operand(r), pick(r, OPS), operand(r));
    }
    match r.below(3) {
        0 => F::And(Box::new(gen_f(r, depth - 1)), Box::new(gen_f(r, depth - 1))),
        1 => F::Or(Box::new(gen_f(r, depth - 1)), Box::new(gen_f(r, depth - 1))),
        _ => F::Not(Box::new(gen_f(r, depth - 1))),
    }
}
fn gen_bgp(r: &mut Rng) -> P {
    let n = if r.chance(2, 3) { 1 } else { r.range(2, 3) };
    P::Bgp(subj(r), (0..n).map(|_| (pred(r), objt(r))).collect())
}
fn gen_p(r: &mut Rng, depth: usize, stats: &mut Stats) -> P {
    let k = if depth == 0 { r.below(3) } else { r.below(11) };
    match k {
        0 | 1 | 7 => gen_bgp(r),
        2 => {
            stats.hit("rt_filter");
            P::Filter(gen_f(r, 2))
        }
        3 => P::Unit,
        4 | 8 => {
            stats.hit("rt_join");
            let n = r.range(2, 4);
            P::Join((0..n).map(|_| gen_p(r, depth - 1, stats)).collect())
        }
        5 | 9 => {
            stats.hit("rt_union");
            let n = r.range(2, 3);
            P::Union((0..n).map(|_| gen_p(r, depth - 1, stats)).collect())
        }
        6 => {
            stats.hit("rt_graph");
            let name = match r.below(3) {
                0 => pick(r, VARS),
                1 => pick(r, NAMES),
                _ => pick(r, IRIS),
            };
            P::Graph(name, Box::new(gen_p(r, depth - 1, stats)))
        }
        _ => {
            stats.hit("rt_subselect");
            P::Sub(Box::new(gen_s(r, depth - 1, stats)))
        }
    }
}
fn gen_s(r: &mut Rng, depth: usize, stats: &mut Stats) -> S {
    let vars = if r.chance(1, 3) { vec![] } else { (0..r.range(1, 3)).map(|_| pick(r, VARS)).collect() };
    let pat = gen_p(r, depth, stats);
    let group = if r.chance(1, 6) { (0..r.range(1, 2)).map(|_| pick(r, VARS)).collect() } else { vec![] };
    let order = if r.chance(1, 4) { (0..r.range(1, 2)).map(|_| (pick(r, VARS), r.chance(1, 2))).collect() } else { vec![] };
    let limit = if r.chance(1, 4) { Some(r.below(500)) } else { None };
    if !group.is_empty() || !order.is_empty() || limit.is_some() {
        stats.hit("rt_modifiers");
    }
    S { distinct: r.chance(1, 5), vars, pat, group, order, limit, other: None }
}
/// a chain of `n` nested groups (kept from collapsing by a second element on every level)
fn gen_chain(r: &mut Rng, n: usize) -> S {
    let mut p = gen_bgp(r);
    for i in 0..n {
        p = match i % 3 {
            0 => P::Join(vec![gen_bgp(r), p]),
            1 => P::Union(vec![p, gen_bgp(r)]),
            _ => P::Graph(pick(r, VARS), Box::new(P::Join(vec![p, gen_bgp(r)]))),
        };
    }
    S { distinct: false, vars: vec![], pat: p, group: vec![], order: vec![], limit: None, other: None }
}
fn gen_layouts(r: &mut Rng, k: usize) -> String {
    let mut ls = Vec::new();
    for j in 0..k {
        let d = ["a", "n", "b"][r.below(3)];
        let n = r.range(1, 9);
        // the first two layouts are plain (single spaces / newlines), the others mix everything
        let codes: Vec<String> = (0..n).map(|_| if j == 0 { "0".to_string() } else if j == 1 { (10 + r.below(2)).to_string() } else { r.below(30).to_string() }).collect();
        ls.push(format!("{}:{}", d, codes.join(",")));
    }
    ls.join("/")
}

fn texts_for_fuzz(r: &mut Rng, stats: &mut Stats) -> String {
    match r.below(7) {
        0 => "PREFIX ex: <http://example.org/> INSERT DATA { ex:a ex:p \"caf\u{e9}\" . GRAPH ex:g { ex:a ex:p 1.5e3 } }".to_string(),
        1 => "PREFIX ex: <http://example.org/>\nDELETE { ?s ex:p ?o } INSERT { ?s ex:q ?o } WHERE { ?s ex:p ?o . FILTER(?o > 3 && !(?o = 7)) }".to_string(),
        2 => "PREFIX ex: <http://example.org/>\nRULE :R :- CONSTRUCT { ?s ex:d ?o . } WHERE { ?s ex:p ?o . FILTER (?o > 1) } .".to_string(),
        3 => "REGISTER RSTREAM <http://out/s> AS SELECT * FROM NAMED WINDOW :w ON :s [RANGE 10 STEP 2] WHERE { WINDOW :w { ?s ?p ?o } }".to_string(),
        4 => "PREFIX ex: <http://example.org/>\nMODEL \"m\" { ARCH MLP { HIDDEN [4, 2] } OUTPUT EXCLUSIVE { \"A\", \"B\" } }\nNEURAL RELATION ex:r USING MODEL \"m\" { INPUT { ?s ex:x ?x . } FEATURES { ?x } }\nML.PREDICT(MODEL \"m\", INPUT { SELECT ?s ?x WHERE { ?s ex:x ?x } }, OUTPUT ?l)".to_string(),
        5 => "SELECT ?s (COUNT(?o) AS ?c) FROM <http://g> FROM NAMED ex:h WHERE { ?s ex:p \"\"\"long\n\"text\"\"\"@en-GB ; ex:q 'x'^^<http://t> , -1.5e-3 , true . << ?s ex:p ?o >> ex:r _:b1 . BIND(CONCAT(?s, \"x\") AS ?n) VALUES (?a ?b) { (1 UNDEF) (<i> \"l\") } } GROUP BY ?s ORDER BY DESC(?c) LIMIT 3".to_string(),
        _ => {
            let q = gen_s(r, 3, stats);
            let mut toks = Vec::new();
            toks_sel(Dots::Between, &q, &mut toks);
            let codes: Vec<usize> = (0..5).map(|_| r.below(30)).collect();
            render(&codes, &toks)
        }
    }
}
const UNI: &[&str] = &["\u{e9}", "\u{8a9e}", "\u{1f600}", "\u{a0}", "\u{2028}", "\u{df}", "\u{300}", "\u{660}", "\u{b7}"];
fn mutate(r: &mut Rng, base: &str) -> String {
    // character-level edits, then (sometimes) a byte-level edit repaired with from_utf8_lossy
    let mut out: Vec<char> = base.chars().collect();
    for _ in 0..r.range(1, 4) {
        if out.is_empty() {
            break;
        }
        let i = r.below(out.len() + 1);
        match r.below(7) {
            0 => {
                if i < out.len() {
                    out.remove(i);
                }
            }
            1 => {
                for c in r.pick(UNI).chars().rev() {
                    out.insert(i.min(out.len()), c);
                }
            }
            2 => {
                let c = *r.pick(&['{', '}', '"', '<', '>', '.', '?', '\\', '#', '(', ')', ':', '\'', ';', '%', '^', '@', '_', '!', '&', '|', '-', '+', 'e', 'u']);
                out.insert(i.min(out.len()), c);
            }
            3 => out.truncate(i),
            4 => {
                if i < out.len() {
                    out[i] = r.pick(UNI).chars().next().unwrap();
                }
            }
            5 => {
                if i + 1 < out.len() {
                    out.swap(i, i + 1);
                }
            }
            _ => {
                let j = r.below(out.len() + 1);
                let (a, b) = (i.min(j), i.max(j).min(out.len()));
                let seg: Vec<char> = out[a..b].to_vec();
                for (k, c) in seg.into_iter().enumerate().take(40) {
                    out.insert(a + k, c);
                }
            }
        }
    }
    let s: String = out.into_iter().collect();
    if r.chance(1, 4) && !s.is_empty() {
        let mut b = s.into_bytes();
        let i = r.below(b.len());
        match r.below(3) {
            0 => {
                b.remove(i);
            }
            1 => b[i] = (r.below(256)) as u8,
            _ => b.insert(i, (128 + r.below(128)) as u8),
        }
        String::from_utf8_lossy(&b).into_owned()
    } else {
        s
    }
}

// execution ---------------------------------------------------------------------------------------------------

fn panic_msg(e: Box<dyn std::any::Any + Send>) -> String {
    let msg = if let Some(s) = e.downcast_ref::<&str>() {
        s.to_string()
    } else if let Some(s) = e.downcast_ref::<String>() {
        s.clone()
    } else {
        "?".to_string()
    };
    msg.replace(['\n', ' ', '|'], "_").chars().take(80).collect()
}

fn exec_rt(toks: &[&str]) -> String {
    if toks.len() != 4 {
        return "bad-request".into();
    }
    let tree = match decode(toks[3]) {
        Some(t) => t,
        None => return "bad-request".into(),
    };
    let mut outs = Vec::new();
    for lay in toks[2].split('/') {
        let (d, codes) = match parse_layout(lay) {
            Some(x) => x,
            None => return "bad-request".into(),
        };
        let mut tk = Vec::new();
        toks_sel(d, &tree, &mut tk);
        let text = render(&codes, &tk);
        let r = catch_unwind(AssertUnwindSafe(|| match kolibrie::parser::parse_sparql_query(&text) {
            Ok((rest, q)) => {
                if rest.is_empty() { encode(&conv_s(&q)) } else { "partial-accept".to_string() }
            }
            Err(_) => "err".to_string(),
        }));
        let r = r.unwrap_or_else(|e| format!("panic:{}", panic_msg(e)));
        // the combined entry must agree with the SELECT-only entry
        let r2 = catch_unwind(AssertUnwindSafe(|| match kolibrie::parser::parse_combined_query(&text) {
            Ok((_, c)) => match c.sparql {
                Some(shared::query::SparqlOperation::Select(q)) => encode(&conv_s(&q)),
                _ => "not-select".to_string(),
            },
            Err(_) => "err".to_string(),
        }))
        .unwrap_or_else(|e| format!("panic:{}", panic_msg(e)));
        let r = if r == r2 { r } else { format!("entries-differ:{}:{}", r, r2) };
        if std::env::var("KVERIF_C16_DEBUG").is_ok() {
            eprintln!("--- {} => {}\n{}", lay, &r[..r.len().min(30)], text);
        }
        outs.push(format!("h={} {}", fnv(&text), r));
    }
    outs.join(" / ")
}

/// `parse text <hex text> <tree>`: a text with the tree it must denote (forms the Lean printer does not produce)
fn exec_text(toks: &[&str]) -> String {
    if toks.len() != 4 {
        return "bad-request".into();
    }
    let text = match unhex(toks[2]) {
        Some(t) => t,
        None => return "bad-request".into(),
    };
    catch_unwind(AssertUnwindSafe(|| match kolibrie::parser::parse_sparql_query(&text) {
        Ok((rest, q)) => {
            if rest.is_empty() { encode(&conv_s(&q)) } else { "partial-accept".to_string() }
        }
        Err(_) => "err".to_string(),
    }))
    .unwrap_or_else(|e| format!("panic:{}", panic_msg(e)))
}

fn exec_fuzz(toks: &[&str]) -> String {
    if toks.len() != 3 {
        return "bad-request".into();
    }
    let text = match unhex(toks[2]) {
        Some(t) => t,
        None => return "bad-request".into(),
    };
    use kolibrie::parser as p;
    let t = text.as_str();
    // (name, must-consume-everything-on-Ok, closure returning Some(remaining length) on Ok)
    let runs: Vec<(&str, bool, Box<dyn Fn() -> Option<usize> + '_>)> = vec![
        ("parse_combined_query", true, Box::new(|| p::parse_combined_query(t).ok().map(|(r, _)| r.len()))),
        ("parse_combined_query_aliases", true, Box::new(|| p::parse_combined_query_with_options(t, true).ok().map(|(r, _)| r.len()))),
        ("parse_sparql_query", true, Box::new(|| p::parse_sparql_query(t).ok().map(|(r, _)| r.len()))),
        ("parse_group_graph_pattern", false, Box::new(|| p::parse_group_graph_pattern(t).ok().map(|(r, _)| r.len()))),
        ("parse_standalone_rule", false, Box::new(|| p::parse_standalone_rule(t).ok().map(|(r, _)| r.len()))),
        ("parse_where", false, Box::new(|| p::parse_where(t).ok().map(|(r, _)| r.len()))),
        ("parse_insert", false, Box::new(|| p::parse_insert(t).ok().map(|(r, _)| r.len()))),
        ("parse_delete", false, Box::new(|| p::parse_delete(t).ok().map(|(r, _)| r.len()))),
        ("parse_filter", false, Box::new(|| p::parse_filter(t).ok().map(|(r, _)| r.len()))),
        ("parse_values", false, Box::new(|| p::parse_values(t).ok().map(|(r, _)| r.len()))),
        ("parse_bind", false, Box::new(|| p::parse_bind(t).ok().map(|(r, _)| r.len()))),
        ("parse_ml_predict", false, Box::new(|| p::parse_ml_predict(t).ok().map(|(r, _)| r.len()))),
        ("parse_register_clause", false, Box::new(|| p::parse_register_clause(t).ok().map(|(r, _)| r.len()))),
        ("parse_literal", false, Box::new(|| p::parse_literal(t).ok().map(|(r, _)| r.len()))),
        ("parse_triple_block", false, Box::new(|| p::parse_triple_block(t).ok().map(|(r, _)| r.len()))),
    ];
    for (name, total, f) in runs.iter() {
        match catch_unwind(AssertUnwindSafe(|| f())) {
            Ok(Some(rem)) => {
                if *total && rem != 0 {
                    return format!("partial-accept:{}:{}", name, rem);
                }
                if rem > t.len() {
                    return format!("remaining-longer-than-input:{}", name);
                }
            }
            Ok(None) => {}
            Err(e) => return format!("panic:{}:{}", name, panic_msg(e)),
        }
    }
    "total".into()
}

// ---- FILTER arithmetic (mirrors lean/Kolibrie/Model/Arith.lean) ----------------------------------------------------
#[derive(Clone, Debug)]
enum AE {
    Op(String),
    Bin(char, Box<AE>, Box<AE>),
}
fn ae_level(e: &AE) -> u8 {
    match e {
        AE::Op(_) => 2,
        AE::Bin('+', ..) | AE::Bin('-', ..) => 0,
        AE::Bin(..) => 1,
    }
}
fn ae_print_at(extra: bool, need: u8, e: &AE, out: &mut Vec<String>) {
    let paren = ae_level(e) < need || (extra && ae_level(e) < 2);
    if paren {
        out.push("(".into());
    }
    ae_print_top(extra, e, out);
    if paren {
        out.push(")".into());
    }
}
fn ae_print_top(extra: bool, e: &AE, out: &mut Vec<String>) {
    match e {
        AE::Op(s) => out.push(s.clone()),
        AE::Bin(c, l, r) => {
            let (ln, rn) = if *c == '+' || *c == '-' { (0, 1) } else { (1, 2) };
            ae_print_at(extra, ln, l, out);
            out.push(c.to_string());
            ae_print_at(extra, rn, r, out);
        }
    }
}
fn ae_dec(t: &mut std::slice::Iter<'_, &str>) -> Option<AE> {
    let x = *t.next()?;
    match x {
        "+" | "-" | "*" | "/" => {
            let l = ae_dec(t)?;
            let r = ae_dec(t)?;
            Some(AE::Bin(x.chars().next()?, Box::new(l), Box::new(r)))
        }
        _ => Some(AE::Op(unhex(x.strip_prefix('o')?)?)),
    }
}
fn ae_enc_real(e: &shared::query::ArithmeticExpression<'_>, out: &mut Vec<String>) {
    use shared::query::ArithmeticExpression as A;
    match e {
        A::Operand(s) => out.push(format!("o{}", hex(s))),
        A::Add(l, r) => { out.push("+".into()); ae_enc_real(l, out); ae_enc_real(r, out); }
        A::Subtract(l, r) => { out.push("-".into()); ae_enc_real(l, out); ae_enc_real(r, out); }
        A::Multiply(l, r) => { out.push("*".into()); ae_enc_real(l, out); ae_enc_real(r, out); }
        A::Divide(l, r) => { out.push("/".into()); ae_enc_real(l, out); ae_enc_real(r, out); }
    }
}
/// `parse arith <extra> <ws> <tree>`
fn exec_arith(toks: &[&str]) -> String {
    if toks.len() != 5 {
        return "bad-request".into();
    }
    let extra = toks[2] == "1";
    let ws: u64 = match toks[3].parse() {
        Ok(w) => w,
        Err(_) => return "bad-request".into(),
    };
    let codes: Vec<&str> = toks[4].split(',').collect();
    let mut it = codes.iter();
    let tree = match ae_dec(&mut it) {
        Some(t) if it.next().is_none() => t,
        _ => return "bad-request".into(),
    };
    let mut tk = Vec::new();
    ae_print_top(extra, &tree, &mut tk);
    let h = fnv(&tk.join(" "));
    // whitespace: always around operators (a sign directly before a number would change the token), free around parentheses
    let mut r = Rng::new(ws | 1);
    let mut text = String::new();
    for (i, t) in tk.iter().enumerate() {
        let is_paren = t == "(" || t == ")";
        let prev_paren = i > 0 && (tk[i - 1] == "(" || tk[i - 1] == ")");
        if i > 0 {
            if is_paren || prev_paren {
                text.push_str(*r.pick(&["", " ", "  ", "\n", "\t"]));
            } else {
                text.push_str(*r.pick(&[" ", "  ", "\n ", " \t"]));
            }
        }
        text.push_str(t);
    }
    let res = catch_unwind(AssertUnwindSafe(|| match kolibrie::parser::parse_arithmetic_expression(&text) {
        Ok((rest, e)) => {
            if rest.trim().is_empty() {
                let mut out = Vec::new();
                ae_enc_real(&e, &mut out);
                out.join(",")
            } else {
                "partial-accept".to_string()
            }
        }
        Err(_) => "err".to_string(),
    }))
    .unwrap_or_else(|e| format!("panic:{}", panic_msg(e)));
    format!("h={} {}", h, res)
}
fn gen_ae(r: &mut Rng, depth: u32) -> AE {
    if depth == 0 || r.chance(1, 3) {
        let atoms = ["?a", "?b", "?c", "?x1", "3", "10", "0.5", "?v_2"];
        return AE::Op(r.pick(&atoms).to_string());
    }
    let c = *r.pick(&['+', '-', '*', '/', '-', '/']);
    // chains: same-level operators nested on the left and, less often, on the right (which must then be parenthesised)
    let l = gen_ae(r, depth - 1);
    let rd = if r.chance(2, 3) { depth - 1 } else { 0 };
    let rr = gen_ae(r, rd);
    AE::Bin(c, Box::new(l), Box::new(rr))
}
fn enc_ae(e: &AE, out: &mut Vec<String>) {
    match e {
        AE::Op(s) => out.push(format!("o{}", hex(s))),
        AE::Bin(c, l, r) => {
            out.push(c.to_string());
            enc_ae(l, out);
            enc_ae(r, out);
        }
    }
}

fn nest_text(kind: &str, n: usize) -> Option<String> {
    Some(match kind {
        "group" => format!("SELECT * WHERE {}{}", "{".repeat(n), "}".repeat(n)),
        "graph" => format!("SELECT * WHERE {{ {} {{ ?s ?p ?o }} {} }}", "GRAPH ?g {".repeat(n.saturating_sub(1)) + "GRAPH ?g", "}".repeat(n.saturating_sub(1))),
        "union" => format!("SELECT * WHERE {{ {}{{ ?s ?p ?o }}{} }}", "{ ".repeat(n), " UNION { ?a ?b ?c } }".repeat(n)),
        "sub" => format!("SELECT * WHERE {{ {} {{ ?s ?p ?o }} {} }}", "{ SELECT * WHERE {".repeat(n.saturating_sub(1)) + "{ SELECT * WHERE", "} }".repeat(n.saturating_sub(1)) + "}"),
        "paren" => format!("SELECT * WHERE {{ FILTER({}?x > 1{}) }}", "(".repeat(n), ")".repeat(n)),
        "not" => format!("SELECT * WHERE {{ FILTER({}(?x > 1)) }}", "!".repeat(n)),
        "arith" => format!("SELECT * WHERE {{ FILTER({}?x{} > 1) }}", "(".repeat(n), ")".repeat(n)),
        "quoted" => {
            let mut t = String::from("?a ?b ?c");
            for _ in 0..n {
                t = format!("<< {} >> ?b ?c", t);
            }
            // strip the outer predicate/object of the last wrap: subject position holds the nested term
            format!("SELECT * WHERE {{ {} }}", t)
        }
        _ => return None,
    })
}

fn exec_nest_here(toks: &[&str]) -> String {
    let n: usize = match toks.get(3).and_then(|x| x.parse().ok()) {
        Some(n) => n,
        None => return "bad-request".into(),
    };
    let text = match nest_text(toks[2], n) {
        Some(t) => t,
        None => return "bad-request".into(),
    };
    // parse on an ordinary (2 MiB) thread stack, as a server worker thread would
    let h = std::thread::spawn(move || match kolibrie::parser::parse_combined_query(&text) {
        Ok(_) => "ok".to_string(),
        Err(_) => "err".to_string(),
    });
    h.join().unwrap_or_else(|e| format!("panic:{}", panic_msg(e)))
}

/// `parse nestseq kind:n,kind:n,…`: the texts are parsed one after the other on ONE thread (as a server worker
/// would): the outcome of each must depend on its own text only, whatever was parsed (and rejected) before it
fn exec_nestseq_here(toks: &[&str]) -> String {
    let mut texts = Vec::new();
    for item in toks.get(2).copied().unwrap_or("").split(',') {
        let mut it = item.split(':');
        let (k, n) = match (it.next(), it.next().and_then(|x| x.parse::<usize>().ok())) {
            (Some(k), Some(n)) => (k, n),
            _ => return "bad-request".into(),
        };
        match nest_text(k, n) {
            Some(t) => texts.push(t),
            None => return "bad-request".into(),
        }
    }
    let h = std::thread::spawn(move || {
        let mut outs = Vec::new();
        for text in texts {
            let r = catch_unwind(AssertUnwindSafe(|| match kolibrie::parser::parse_combined_query(&text) {
                Ok(_) => "ok".to_string(),
                Err(_) => "err".to_string(),
            }))
            .unwrap_or_else(|e| format!("panic:{}", panic_msg(e)));
            outs.push(r);
        }
        outs.join(",")
    });
    h.join().unwrap_or_else(|e| format!("panic:{}", panic_msg(e)))
}

/// deep nesting can overflow the stack, which aborts the process: run it in a child
fn exec_nest(req: &str, toks: &[&str]) -> String {
    if std::env::var("KVERIF_C16_CHILD").is_ok() {
        return if toks.get(1) == Some(&"nestseq") { exec_nestseq_here(toks) } else { exec_nest_here(toks) };
    }
    use std::io::Write;
    let exe = match std::env::current_exe() {
        Ok(e) => e,
        Err(_) => return "machinery:no-exe".into(),
    };
    let mut child = match std::process::Command::new(exe)
        .args(["exec", "C16"])
        .env("KVERIF_C16_CHILD", "1")
        .stdin(std::process::Stdio::piped())
        .stdout(std::process::Stdio::piped())
        .stderr(std::process::Stdio::null())
        .spawn()
    {
        Ok(c) => c,
        Err(_) => return "machinery:spawn".into(),
    };
    if let Some(mut si) = child.stdin.take() {
        let _ = writeln!(si, "{}", req);
    }
    match child.wait_with_output() {
        Ok(o) => {
            let out = String::from_utf8_lossy(&o.stdout).trim().to_string();
            if o.status.success() && !out.is_empty() {
                out
            } else {
                format!("abort:{}", o.status.to_string().replace(' ', "_"))
            }
        }
        Err(_) => "machinery:wait".into(),
    }
}

const NEST_KINDS: &[&str] = &["group", "graph", "union", "sub", "paren", "not", "arith", "quoted"];

impl Prop for C16 {
    fn id(&self) -> &'static str {
        "parse"
    }
    fn cases(&self, tier: Tier) -> usize {
        match tier {
            Tier::Quick => 2400,
            Tier::Thorough => 150000,
        }
    }
    fn exhaustive(&self, tier: Tier, stats: &mut Stats) -> Vec<String> {
        let mut out = Vec::new();
        // nesting: around the limit, far beyond it, and the confirmed 20 000 witness
        let depths: &[usize] = if tier == Tier::Quick { &[1, 100, 124, 125, 126, 127, 128, 129, 130, 1000, 20000] } else { &[1, 2, 50, 100, 120, 121, 122, 123, 124, 125, 126, 127, 128, 129, 130, 131, 200, 1000, 5000, 20000, 100000] };
        for k in NEST_KINDS {
            for d in depths {
                out.push(format!("parse nest {} {}", k, d));
                stats.hit("nest");
            }
        }
        // histories on one thread: rejected over-deep texts must not change what is accepted afterwards (and vice versa)
        for (reps, deep) in [(1usize, 129usize), (3, 140), (40, 129), (130, 200), (200, 129)] {
            for k in ["group", "paren", "quoted", "sub"] {
                let mut items: Vec<String> = vec![format!("{}:100", k)];
                for _ in 0..reps {
                    items.push(format!("{}:{}", k, deep));
                }
                for probe in [1usize, 60, 120, 124, 128] {
                    items.push(format!("group:{}", probe));
                    items.push(format!("{}:{}", k, probe));
                }
                out.push(format!("parse nestseq {}", items.join(",")));
                stats.hit("nest_history");
            }
        }
        // FILTER arithmetic: every tree with two operators over three operands (both groupings, all operator pairs), with
        // minimal and with redundant parentheses
        for c1 in ['+', '-', '*', '/'] {
            for c2 in ['+', '-', '*', '/'] {
                for left in [true, false] {
                    for extra in [0, 1] {
                        let (a, b, c) = (AE::Op("?a".into()), AE::Op("4".into()), AE::Op("?c".into()));
                        let t = if left {
                            AE::Bin(c2, Box::new(AE::Bin(c1, Box::new(a), Box::new(b))), Box::new(c))
                        } else {
                            AE::Bin(c1, Box::new(a), Box::new(AE::Bin(c2, Box::new(b), Box::new(c))))
                        };
                        let mut code = Vec::new();
                        enc_ae(&t, &mut code);
                        out.push(format!("parse arith {} {} {}", extra, out.len() + 1, code.join(",")));
                        stats.hit("arith_two_operators");
                    }
                }
            }
        }
        // numbers at and beyond the machine word in every numeric position of a query
        for n in ["18446744073709551615", "18446744073709551616", "99999999999999999999999999", "00000000000000000000000001", "9223372036854775808"] {
            for t in [
                format!("SELECT * WHERE {{ ?s ?p ?o }} LIMIT {}", n),
                format!("SELECT * WHERE {{ {{ SELECT ?s WHERE {{ ?s ?p ?o }} LIMIT {} }} }}", n),
                format!("SELECT * WHERE {{ ?s ?p ?o FILTER(?o > {}) }}", n),
                format!("SELECT * WHERE {{ ?s ?p {} }}", n),
                format!("SELECT * WHERE {{ ?s ?p ?o }} ORDER BY ?s LIMIT {} ", n),
                format!("SELECT * WHERE {{ ?s ?p {}.{}e{} }}", n, n, n),
            ] {
                out.push(format!("parse fuzz {}", hex(&t)));
                stats.hit("huge_numbers");
            }
        }
        // nested syntax trees around the nesting limit, through the round-trip check
        let mut r = Rng::new(16);
        for n in [1usize, 40, 80, 100, 110, 118, 120, 122, 124, 126, 127, 128, 129, 130, 140] {
            let q = gen_chain(&mut r, n);
            out.push(format!("parse rt {} {}", gen_layouts(&mut r, 3), encode(&q)));
            stats.hit("rt_chain");
        }
        out.extend(c16_scan::exhaustive_scan(tier, stats));
        out
    }
    fn gen(&self, r: &mut Rng, _tier: Tier, i: usize, stats: &mut Stats) -> String {
        if i % 16 == 5 {
            stats.hit("arith_random_tree");
            let t = gen_ae(r, 4);
            let mut code = Vec::new();
            enc_ae(&t, &mut code);
            return format!("parse arith {} {} {}", r.below(2), r.range(1, 1_000_000), code.join(","));
        }
        match i % 8 {
            2 if r.chance(1, 2) => {
                // sub-selects printed directly inside GRAPH / WHERE braces
                stats.hit("text_direct_subselect");
                let inner = gen_s(r, 1, stats);
                let mid = match r.below(3) {
                    0 => P::Graph(pick(r, VARS), Box::new(P::Sub(Box::new(inner)))),
                    1 => P::Sub(Box::new(inner)),
                    _ => P::Join(vec![gen_bgp(r), P::Graph(pick(r, IRIS), Box::new(P::Sub(Box::new(inner))))]),
                };
                let q = S { distinct: false, vars: vec![], pat: mid, group: vec![], order: vec![], limit: None, other: None };
                let d = [Dots::AllDirect, Dots::NoneDirect, Dots::BetweenDirect][r.below(3)];
                let mut tk = Vec::new();
                toks_sel(d, &q, &mut tk);
                let codes: Vec<usize> = (0..r.range(1, 6)).map(|_| r.below(30)).collect();
                format!("parse text {} {}", hex(&render(&codes, &tk)), encode(&q))
            }
            0 | 1 | 2 => {
                stats.hit("rt");
                let depth = r.range(1, 4);
                let q = gen_s(r, depth, stats);
                format!("parse rt {} {}", gen_layouts(r, 8), encode(&q))
            }
            3 | 4 => {
                stats.hit("fuzz");
                let base = texts_for_fuzz(r, stats);
                let text = if r.chance(1, 10) {
                    base
                } else if r.chance(1, 5) {
                    // a complete request followed by trailing input: acceptance must not drop it silently
                    stats.hit("fuzz_trailing");
                    let junk = *r.pick(&["}", ".", "?x", "\u{8a9e}", "SELECT * WHERE { }", ";", "{ }", "LIMIT 1", "x", "# c\n ."]);
                    format!("{}{}{}", base, r.pick(&[" ", "\n", " . ", ""]), junk)
                } else {
                    mutate(r, &base)
                };
                if !text.is_ascii() {
                    stats.hit("fuzz_multibyte");
                }
                format!("parse fuzz {}", hex(&text))
            }
            _ => c16_scan::gen_scan(r, stats),
        }
    }
    fn exec(&self, req: &str) -> String {
        let toks: Vec<&str> = req.split(' ').collect();
        match toks.get(1).copied() {
            Some("scan") => c16_scan::exec_scan(&toks),
            Some("rt") => exec_rt(&toks),
            Some("text") => exec_text(&toks),
            Some("fuzz") => exec_fuzz(&toks),
            Some("nest") | Some("nestseq") => exec_nest(req, &toks),
            Some("arith") => exec_arith(&toks),
            _ => "bad-request".into(),
        }
    }
}
