//! Line-protocol helpers mirrored by lean/Kolibrie/Core/Proto.lean
pub fn hex(s: &str) -> String {
    if s.is_empty() {
        return "-".to_string();
    }
    s.bytes().map(|b| format!("{:02x}", b)).collect()
}

pub fn unhex(s: &str) -> Option<String> {
    if s == "-" {
        return Some(String::new());
    }
    if s.len() % 2 != 0 {
        return None;
    }
    let mut out = Vec::with_capacity(s.len() / 2);
    let b = s.as_bytes();
    for i in (0..b.len()).step_by(2) {
        let h = (b[i] as char).to_digit(16)?;
        let l = (b[i + 1] as char).to_digit(16)?;
        out.push((h * 16 + l) as u8);
    }
    String::from_utf8(out).ok()
}

pub fn fnv(s: &str) -> u64 {
    let mut h: u64 = 14695981039346656037;
    for b in s.bytes() {
        h = (h ^ b as u64).wrapping_mul(1099511628211);
    }
    h
}

pub fn opt_nat(s: &str) -> Option<Option<u32>> {
    if s == "_" {
        Some(None)
    } else {
        s.parse::<u32>().ok().map(Some)
    }
}

pub fn nat_list(s: &str, sep: char) -> Option<Vec<u32>> {
    if s.is_empty() {
        return Some(vec![]);
    }
    s.split(sep).map(|x| x.parse::<u32>().ok()).collect()
}

pub fn show_opt(o: Option<u32>) -> String {
    match o {
        None => "_".to_string(),
        Some(x) => x.to_string(),
    }
}
