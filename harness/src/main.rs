//! kverif — correspondence harness: generates protocol requests and runs /repo's real code on them.
//!
//!   kverif gen  <ID> <outdir> <seed> <quick|thorough>   → outdir/req.txt, impl.txt, stats.json
//!   kverif exec <ID> < requests > impl replies          (line server; used for replay and shrinking)
mod proto;
mod props;
mod rng;
mod engine_common;

use props::{Prop, Stats, Tier};
use std::io::{BufRead, Write};
use std::panic::{catch_unwind, AssertUnwindSafe};

fn exec_guarded(p: &dyn Prop, req: &str) -> String {
    match catch_unwind(AssertUnwindSafe(|| p.exec(req))) {
        Ok(s) => s,
        Err(e) => {
            let msg = if let Some(s) = e.downcast_ref::<&str>() {
                s.to_string()
            } else if let Some(s) = e.downcast_ref::<String>() {
                s.clone()
            } else {
                "?".to_string()
            };
            format!("panic:{}", msg.replace('\n', " ").chars().take(160).collect::<String>())
        }
    }
}

fn main() {
    let args: Vec<String> = std::env::args().collect();
    if args.len() < 3 {
        eprintln!("usage: kverif gen <ID> <outdir> <seed> <tier> | kverif exec <ID>");
        std::process::exit(2);
    }
    // keep panics quiet: they are part of the canonical output
    if std::env::var("KVERIF_PANIC_LOC").is_ok() {
        // diagnosis only: where did the code under test panic
        std::panic::set_hook(Box::new(|info| {
            if let Some(l) = info.location() {
                eprintln!("panic-location {}:{}", l.file(), l.line());
            }
        }));
    } else {
        std::panic::set_hook(Box::new(|_| {}));
    }
    let prop = match props::lookup(&args[2]) {
        Some(p) => p,
        None => {
            eprintln!("unknown property {}", args[2]);
            std::process::exit(2);
        }
    };
    match args[1].as_str() {
        "exec" => {
            let stdin = std::io::stdin();
            let stdout = std::io::stdout();
            let mut out = stdout.lock();
            for line in stdin.lock().lines() {
                let line = line.unwrap();
                let line = line.trim_end();
                if line.is_empty() {
                    continue;
                }
                writeln!(out, "{}", exec_guarded(prop.as_ref(), line)).unwrap();
                out.flush().unwrap();
            }
        }
        "gen" => {
            let outdir = &args[3];
            let seed: u64 = args[4].parse().expect("seed");
            let tier = if args[5] == "thorough" { Tier::Thorough } else { Tier::Quick };
            std::fs::create_dir_all(outdir).unwrap();
            let mut stats = Stats::default();
            let mut reqs: Vec<String> = Vec::new();
            // corpus first
            let corpus_dir = format!("{}/corpus/{}", env!("CARGO_MANIFEST_DIR").trim_end_matches("/harness"), args[2]);
            if let Ok(rd) = std::fs::read_dir(&corpus_dir) {
                let mut files: Vec<_> = rd.filter_map(|e| e.ok()).map(|e| e.path()).collect();
                files.sort();
                for f in files {
                    if let Ok(txt) = std::fs::read_to_string(&f) {
                        for l in txt.lines() {
                            let l = l.trim();
                            if !l.is_empty() && !l.starts_with('#') {
                                reqs.push(l.to_string());
                                stats.hit("corpus");
                            }
                        }
                    }
                }
            }
            let ex = prop.exhaustive(tier, &mut stats);
            stats.add("exhaustive", ex.len() as u64);
            reqs.extend(ex);
            let n = prop.cases(tier);
            for i in 0..n {
                let mut rng = rng::Rng::fork(seed, prop.id(), i as u64);
                reqs.push(prop.gen(&mut rng, tier, i, &mut stats));
            }
            stats.add("generated", n as u64);
            // KVERIF_NO_EXEC=1: only write the requests (the caller executes them with crash isolation)
            if std::env::var("KVERIF_NO_EXEC").is_ok() {
                let mut fr = std::io::BufWriter::new(std::fs::File::create(format!("{}/req.txt", outdir)).unwrap());
                for r in reqs.iter() {
                    writeln!(fr, "{}", r).unwrap();
                }
                std::fs::write(format!("{}/impl.txt", outdir), "").unwrap();
                let mut js = String::from("{");
                for (i, (k, v)) in stats.counts.iter().enumerate() {
                    if i > 0 {
                        js.push(',');
                    }
                    js.push_str(&format!("\"{}\":{}", k, v));
                }
                js.push('}');
                std::fs::write(format!("{}/stats.json", outdir), js).unwrap();
                return;
            }
            // execute in parallel, order preserved
            let nthreads = std::thread::available_parallelism().map(|n| n.get()).unwrap_or(4).min(16);
            let chunk = (reqs.len() + nthreads - 1) / nthreads.max(1);
            let mut outs: Vec<String> = vec![String::new(); reqs.len()];
            if !reqs.is_empty() {
                std::thread::scope(|s| {
                    for (rs, os) in reqs.chunks(chunk.max(1)).zip(outs.chunks_mut(chunk.max(1))) {
                        let p = prop.as_ref();
                        s.spawn(move || {
                            for (r, o) in rs.iter().zip(os.iter_mut()) {
                                *o = exec_guarded(p, r);
                            }
                        });
                    }
                });
            }
            let mut fr = std::io::BufWriter::new(std::fs::File::create(format!("{}/req.txt", outdir)).unwrap());
            let mut fi = std::io::BufWriter::new(std::fs::File::create(format!("{}/impl.txt", outdir)).unwrap());
            for (r, o) in reqs.iter().zip(outs.iter()) {
                writeln!(fr, "{}", r).unwrap();
                writeln!(fi, "{}", o).unwrap();
            }
            let mut js = String::from("{");
            for (i, (k, v)) in stats.counts.iter().enumerate() {
                if i > 0 {
                    js.push(',');
                }
                js.push_str(&format!("\"{}\":{}", k, v));
            }
            js.push('}');
            std::fs::write(format!("{}/stats.json", outdir), js).unwrap();
        }
        _ => {
            eprintln!("unknown command");
            std::process::exit(2);
        }
    }
}
